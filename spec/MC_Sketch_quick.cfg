SPECIFICATION Spec
CONSTANTS
  Keys = {1, 2}
  Counters = 20
  PosChoices = {0, 31}
  MaxLen = 42
INVARIANT NoUnderCount
INVARIANT Bounded
INVARIANT AgesExactly
INVARIANT WindowCount
CHECK_DEADLOCK FALSE
