SPECIFICATION Spec
CONSTANTS
  Pollers = {"c0"}
  Polls <- Polls1x3
  Final = 1
  KeepHist = TRUE
INVARIANT Export
CHECK_DEADLOCK FALSE
