SPECIFICATION Spec
CONSTANTS
  Pollers = {"c0", "c1"}
  Wakers = {1, 2}
  Final = 1
  FixD1 <- FixOff
INVARIANT NoViolation
CHECK_DEADLOCK FALSE
