SPECIFICATION Spec
CONSTANTS
  Callers = {"c0", "c1"}
  Programs <- ProgsReads
  Alphabet = {}
  Budget = 0
  CfgRec <- CfgReads
  Horizon = 0
  EstOf <- EstZero
  WithConsumer = TRUE
  WithSweeper = FALSE
INVARIANT NoViolation
INVARIANT Inv_C01
INVARIANT Inv_TypeOK
CHECK_DEADLOCK FALSE
