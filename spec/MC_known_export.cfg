SPECIFICATION ExportSpec
CONSTANTS
  Callers = {"c0"}
  Programs <- ProgsKnown
  Alphabet = {}
  Budget = 0
  CfgRec <- CfgKnown
  Horizon = 3
  EstOf <- EstZero
  WithConsumer = FALSE
  WithSweeper = TRUE
  KeepHist = TRUE
CHECK_DEADLOCK FALSE
INVARIANT ExportScenario
INVARIANT ExportBehaviour
