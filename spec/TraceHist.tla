----------------------------- MODULE TraceHist ------------------------------
(***************************************************************************)
(* Sequential histories on PRIVATE keys recorded from FREE-RUNNING runs    *)
(* (harness `hist`): each key has one writing thread, every write is       *)
(* awaited, the cache never fills and nothing expires, while other threads *)
(* read the same keys as fast as they can (contention on the store shards, *)
(* the access buffers and the command queue).  The calls on one key then   *)
(* have the sequential meaning of KeyHist below, whatever the schedule:    *)
(*   put          accepted iff the key is absent, else "already exists"    *)
(*                (C07), and then the key has the value                    *)
(*   pou          accepted, the key has the value (C08)                    *)
(*   del_then_get the delete has RETURNED: the read that follows in the    *)
(*                same thread finds nothing (C04)                          *)
(*   del_ack      accepted iff the key was present, else "does not exist"  *)
(*                (C04, C11); the key is absent                            *)
(*   get          the current value or nothing (C02, C03)                  *)
(*   cold_put     ("hot key" rounds) a never-read key that fits only by    *)
(*                evicting a continuously read one is refused (C06, C14)   *)
(* Every recorded call is one step; the judges return verdict records in   *)
(* the same form as CacheDJudge.                                           *)
(***************************************************************************)
EXTENDS Integers, Sequences, FiniteSets, TLC, Json, IOUtils

Rec == ndJsonDeserialize(IOEnv.TRACE)

VARIABLES l, cur, rep
vars == <<l, cur, rep>>

Absent == -1
StAccepted == 1
StNoKey == 12
StExists == 13

HV(prop, what) == [prop |-> prop, kind |-> "violation", finding |-> "", what |-> what]

RECURSIVE Merge(_, _, _, _)
Merge(acc, new, run, i) ==
  IF new = <<>> THEN acc
  ELSE LET v == Head(new)
           hit == {j \in DOMAIN acc : acc[j].prop = v.prop /\ acc[j].what = v.what}
           acc2 == IF hit = {} THEN Append(acc, v @@ [n |-> 1, run |-> run, i |-> i])
                   ELSE LET j == CHOOSE x \in hit : TRUE IN [acc EXCEPT ![j].n = @ + 1]
       IN Merge(acc2, Tail(new), run, i)

Get(f, x, d) == IF x \in DOMAIN f THEN f[x] ELSE d
With(f, x, v) == [y \in DOMAIN f \cup {x} |-> IF y = x THEN v ELSE f[y]]

\* the sequential meaning of one call on key r.k whose current value is c (Absent: none): <<new value, verdicts>>
KeyHist(c, r) ==
  CASE r.op = "put" ->
         IF c = Absent
         THEN <<IF r.st = StAccepted THEN r.v ELSE c,
                IF r.st = StAccepted THEN <<>>
                ELSE IF r.st = StExists THEN <<HV("C07", "a put of a key that reads as absent was rejected as already existing")>>
                ELSE <<HV("C06", "a put into a cache with room was not accepted")>>>>
         ELSE <<IF r.st = StAccepted THEN r.v ELSE c,
                IF r.st = StExists THEN <<>>
                ELSE <<HV("C07", "a put of a readable key was not rejected as already existing (it was " \o (IF r.st = StAccepted THEN "accepted: the entry is overwritten" ELSE "answered otherwise") \o ")")>>>>
    [] r.op = "pou" ->
         <<IF r.st = StAccepted THEN r.v ELSE c,
           IF r.st = StAccepted THEN <<>> ELSE <<HV("C08", "an upsert with a value into a cache with room was not accepted")>>>>
    [] r.op = "del_then_get" ->
         <<c, IF r.got # Absent
              THEN <<HV("C04", "a read that began after delete() had returned still found the key (same thread, nobody else writes the key)"),
                     HV("C02", "a read returned a value although a delete of the key had already returned (same thread, nobody else writes the key)")>>
              ELSE <<>>>>
    [] r.op = "del_ack" ->
         <<Absent,
           IF c # Absent /\ r.st # StAccepted THEN <<HV("C04", "the delete of a present key was not acknowledged as accepted")>>
           ELSE IF c = Absent /\ r.st # StNoKey THEN <<HV("C04", "the delete of an absent key was not rejected as not existing")>>
           ELSE <<>>>>
    [] r.op = "get" ->
         <<c, IF r.got = c THEN <<>>
              ELSE IF c = Absent THEN <<HV("C02", "a read returned a value for a key that is absent (deleted or never written)")>>
              ELSE IF r.got = Absent THEN <<HV("C03", "an accepted key without time to live became unreadable without memory pressure")>>
              ELSE <<HV("C02", "a read returned a value other than the last one written to the key")>>>>
    \* "hot key" rounds: the only resident fills the cache and is read without pause; r.k was never read and fits only by evicting it
    [] r.op = "cold_put" ->
         \* (judged when the newcomer's estimate was 0 before and after the put and the resident's was at least 4 before it: the
         \*  resident is incremented by every batch, so between two halvings it cannot fall to 0)
         <<c, (IF r.st = StAccepted /\ r.e_cold = 0 /\ r.e_cold2 = 0 /\ r.e_hot >= 4
               THEN <<HV("C14", "a key that was never read was admitted in place of a key that is read continuously: admission used an estimate below the accesses recorded for it"),
                      HV("C06", "a key colder than the only candidate victim was admitted")>>
               ELSE <<>>)
              \o (IF r.got = Absent /\ r.st \notin {StAccepted, -2}
                  THEN <<HV("C06", "the resident key was evicted although the incoming key was refused")>> ELSE <<>>)>>
    \* "hand-over" rounds: r.v = 1 when the first task saw Pending and the second one went to sleep; r.got = -1 when the sleeper was
    \* not woken although the acknowledgement completed
    [] r.op = "handover_shut" ->     \* the same, with a shutdown that may complete the acknowledgement by draining the queue
         <<c, (IF r.got = Absent
               THEN <<HV("C13", "a caller sleeping on an acknowledgement handed out before shutdown was never woken: it waits for ever"),
                      HV("C12", "the task that most recently polled the acknowledgement before completion was not woken by it"),
                      HV("C18", "a task awaiting an acknowledgement was never woken: its await would not return")>>
               ELSE <<>>)
              \o (IF r.st = 0 THEN <<HV("C12", "awaiting the acknowledgement yielded the placeholder status")>> ELSE <<>>)>>
    [] r.op = "handover" ->
         <<c, (IF r.got = Absent
               THEN <<HV("C12", "the task that most recently polled the acknowledgement before completion was not woken by it"),
                      HV("C18", "a task awaiting an acknowledgement was never woken: its await would not return")>>
               ELSE <<>>)
              \o (IF r.st = 0 THEN <<HV("C12", "awaiting the acknowledgement yielded the placeholder status")>> ELSE <<>>)>>
    \* "contended completion" rounds: r.v polls returned Pending (all with one waker), r.got calls of that waker
    [] r.op = "contend" ->
         <<c, (IF r.v > 0 /\ r.got = 0
               THEN <<HV("C12", "polls returned Pending with a waker registered, and the completion did not call it (the wake-up was skipped)")>> ELSE <<>>)
              \o (IF r.st = 0 THEN <<HV("C12", "a poll yielded the placeholder status as the result")>> ELSE <<>>)>>
    [] OTHER -> <<c, <<>>>>

Init == l = 1 /\ cur = [k \in {} |-> Absent]
        /\ rep = [div |-> <<>>, verdicts |-> <<>>, steps |-> 0, runs |-> 0, unmodelled |-> {}, ndiv |-> 0, nverd |-> 0]

Next ==
  /\ l <= Len(Rec)
  /\ l' = l + 1
  /\ LET r == Rec[l] IN
       IF r.t = "reset"
       THEN /\ cur' = [k \in {} |-> Absent]
            /\ rep' = [rep EXCEPT !.runs = @ + 1]
       ELSE LET res == KeyHist(Get(cur, r.k, Absent), r) IN
            /\ cur' = With(cur, r.k, res[1])
            /\ rep' = [rep EXCEPT !.steps = @ + 1, !.nverd = @ + Len(res[2]), !.verdicts = Merge(@, res[2], r.run, r.n)]

Spec == Init /\ [][Next]_vars
Finished == l = Len(Rec) + 1
Accepted ==
  LET ok == TLCGet("stats").diameter - 1 = Len(Rec)
  IN IF ok THEN TRUE ELSE Print(<<"TRACE-NOT-CONSUMED", TLCGet("stats").diameter - 1, Len(Rec)>>, FALSE)
ReportInv == Finished => PrintT(<<"REPORT", ToJson(rep)>>)
=============================================================================
