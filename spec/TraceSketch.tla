----------------------------- MODULE TraceSketch -----------------------------
(* Trace validation of the real Row / FrequencyCounter / TinyLFU against Sketch.tla: one implementation
   transition per line; byte-level lines are the per-transition tour of the byte model. *)
EXTENDS Sketch, Json, IOUtils

Rec == ndJsonDeserialize(IOEnv.TRACE)

VARIABLES l, L, cnt, rep
vars == <<l, L, cnt, rep>>

SV(what) == [prop |-> "C14", kind |-> "violation", finding |-> "", what |-> what]

RECURSIVE Merge(_, _, _, _)
Merge(acc, new, run, i) ==
  IF new = <<>> THEN acc
  ELSE LET v == Head(new)
           hit == {j \in DOMAIN acc : acc[j].what = v.what}
           acc2 == IF hit = {} THEN Append(acc, v @@ [n |-> 1, run |-> run, i |-> i])
                   ELSE LET j == CHOOSE x \in hit : TRUE IN [acc EXCEPT ![j].n = @ + 1]
       IN Merge(acc2, Tail(new), run, i)

Init == l = 1 /\ L = [none |-> TRUE] /\ cnt = [k \in {} |-> 0]
        /\ rep = [div |-> <<>>, verdicts |-> <<>>, steps |-> 0, runs |-> 0, unmodelled |-> {}, ndiv |-> 0, nverd |-> 0]

Cap(n) == IF n > MaxNibble + 1 THEN MaxNibble + 1 ELSE n
GetC(f, k) == IF k \in DOMAIN f THEN f[k] ELSE 0

JByte(r) ==
  (IF r.inc # IncByte(r.b, r.p) THEN <<SV("increment of a packed counter: wrong byte (carry, wrap or wrong nibble)")>> ELSE <<>>)
  \o (IF r.get # Nib(r.b, r.p) THEN <<SV("read of a packed counter returns a wrong value")>> ELSE <<>>)
  \o (IF r.halve # HalveByte(r.b) THEN <<SV("halving does not halve both counters of a byte (rounded down)")>> ELSE <<>>)

JRow(r) ==
  LET row == r.row IN
  (IF r.inc # RowInc(row, r.p) THEN <<SV("increment of one counter disturbed another counter of the row or did not saturate")>> ELSE <<>>)
  \o (IF r.get # RowGet(row, r.p) THEN <<SV("read of a counter in a multi-byte row returns a wrong value")>> ELSE <<>>)
  \o (IF r.halve # RowHalve(row) THEN <<SV("halving a row does not halve every counter")>> ELSE <<>>)

JSize(r) ==
  (IF r.np2 # NextPow2(r.c) \/ r.total # NextPow2(r.c) THEN <<SV("the number of counters is not the next power of two")>> ELSE <<>>)
  \o (IF r.rowlen # RowLen(r.c) \/ r.nrows # Rows THEN <<SV("row length does not give every position a byte")>> ELSE <<>>)
  \o (IF r.reset_at # r.c THEN <<SV("the ageing threshold is not the configured number of counters")>> ELSE <<>>)

DoAcc(r) ==
  LET h == r.h
      pos == r.pos
      \* a bloom filter may answer yes for a hash it never saw (false positive): adopt its answer
      L0 == IF r.has /\ h \notin L.dk THEN [L EXCEPT !.dk = @ \cup {h}] ELSE IF ~r.has /\ h \in L.dk THEN [L EXCEPT !.dk = @ \ {h}] ELSE L
      aged == Aged(L0, h, pos, r.has)
      P == Access(L0, h, pos, r.has)
      div == {f \in {"rows", "total"} : CASE f = "rows" -> P.rows # r.rows [] OTHER -> P.total # r.total}
      A == [P EXCEPT !.rows = r.rows, !.total = r.total]
      cnt2 == IF aged THEN [k \in {} |-> 0] ELSE [k \in DOMAIN cnt \cup {h} |-> IF k = h THEN GetC(cnt, h) + 1 ELSE cnt[k]]
      verdicts ==
        (IF ~aged /\ r.est < Cap(GetC(cnt2, h)) THEN <<SV("the estimate is below the number of accesses recorded in this ageing window")>> ELSE <<>>)
        \o (IF r.skest # SketchEstimate(A, pos) THEN <<SV("the count-min estimate is not the minimum over the four rows")>> ELSE <<>>)
        \o (IF r.est # r.skest + (IF r.has_after THEN 1 ELSE 0) THEN <<SV("estimate is not sketch estimate plus the first-access filter")>> ELSE <<>>)
        \o (IF ~aged /\ ~r.has /\ ~r.has_after THEN <<SV("a first access was not remembered by the first-access filter")>> ELSE <<>>)
        \o (IF ~aged /\ r.has /\ r.rows # [rr \in 1..Rows |-> RowInc(L0.rows[rr], pos[rr])]
            THEN <<SV("a repeated access did not increment exactly the key's four counters (saturating)")>> ELSE <<>>)
        \o (IF ~aged /\ ~r.has /\ r.rows # L0.rows THEN <<SV("a first access changed the counters")>> ELSE <<>>)
        \o (IF aged /\ (r.total # 0 \/ r.has_after) THEN <<SV("ageing did not restart the window and clear the first-access filter")>> ELSE <<>>)
        \o (IF aged /\ r.rows # P.rows THEN <<SV("ageing did not halve every counter")>> ELSE <<>>)
        \o (IF ~aged /\ r.total # L0.total + 1 THEN <<SV("the sketch aged before the configured number of recorded accesses (or lost count)")>> ELSE <<>>)
        \o (IF r.total >= L0.resetAt THEN <<SV("the sketch did not age at the configured number of recorded accesses")>> ELSE <<>>)
  IN /\ L' = A
     /\ cnt' = cnt2
     /\ rep' = [rep EXCEPT !.steps = @ + 1, !.ndiv = @ + (IF div = {} THEN 0 ELSE 1),
                           !.div = IF div # {} /\ Len(@) < 40 THEN Append(@, [run |-> r.run, i |-> r.i, actor |-> "lfu", site |-> "acc", next |-> "", fields |-> div]) ELSE @,
                           !.nverd = @ + Len(verdicts), !.verdicts = Merge(@, verdicts, r.run, r.i)]

\* A BATCH of accesses in one call (what the consumer of the access buffers does): the result must be the one of its accesses
\* applied one after the other, ageing included at exactly the configured count.  The first-access filter is a bloom filter:
\* its answer for an element is the logged one (r.has[i], read before the call) as long as the batch has not aged the sketch and
\* the hash has not occurred in the batch before (a logged "no" may have turned into a false positive if the batch has added
\* other hashes meanwhile: then both answers are followed); it is yes for a hash the batch itself added since the last ageing;
\* otherwise (first occurrence after an ageing inside the batch) it is unknown and both answers are followed.
RECURSIVE BatchStates(_, _, _, _, _)
BatchStates(S, r, i, agedYet, added) ==     \* S: set of [st, cnt] after the first i-1 elements
  IF i > Len(r.hs) THEN S
  ELSE LET h == r.hs[i] pos == r.poss[i]
           \* (a hash the filter did not know before the call may have become a false positive through what the batch itself added)
           answers == IF h \in added THEN {TRUE}
                      ELSE IF ~agedYet THEN (IF r.has[i] THEN {TRUE} ELSE IF added = {} THEN {FALSE} ELSE {TRUE, FALSE})
                      ELSE {TRUE, FALSE}
           nxt == UNION {{LET ages == Aged(x.st, h, pos, a)
                              st2 == Access(x.st, h, pos, a)
                              c2 == IF ages THEN [k \in {} |-> 0] ELSE [k \in DOMAIN x.cnt \cup {h} |-> IF k = h THEN GetC(x.cnt, h) + 1 ELSE x.cnt[k]]
                          IN [st |-> st2, cnt |-> c2, aged |-> ages] : a \in answers} : x \in S}
           \* (ageing depends on the running total only: all members agree on it)
           agesNow == \E y \in nxt : y.aged
       IN BatchStates({[st |-> y.st, cnt |-> y.cnt] : y \in nxt}, r, i + 1, agedYet \/ agesNow, IF agesNow THEN {} ELSE added \cup {h})

DoBatch(r) ==
  LET S == BatchStates({[st |-> L, cnt |-> cnt]}, r, 1, FALSE, {})
      match == {x \in S : x.st.rows = r.rows /\ x.st.total = r.total}
      verdicts == IF match = {} THEN <<SV("a batch of accesses was not applied as the sequence of its accesses (counters, window count or the ageing point differ)"),
                                         [prop |-> "C15", kind |-> "violation", finding |-> "", what |-> "access records handed to the sketch in one batch were not each delivered to it exactly once"]>>
                  ELSE <<>>
      pick == IF match # {} THEN CHOOSE x \in match : TRUE ELSE [st |-> [L EXCEPT !.rows = r.rows, !.total = r.total, !.dk = {}], cnt |-> [k \in {} |-> 0]]
      estBad == match # {} /\ \E j \in DOMAIN r.ests : r.ests[j][2] < Cap(GetC(pick.cnt, r.ests[j][1]))
  IN /\ L' = pick.st
     /\ cnt' = pick.cnt
     /\ rep' = [rep EXCEPT !.steps = @ + 1, !.ndiv = @ + (IF match = {} THEN 1 ELSE 0),
                           !.nverd = @ + Len(verdicts) + (IF estBad THEN 1 ELSE 0),
                           !.verdicts = Merge(Merge(@, verdicts, r.run, r.i),
                                              IF estBad THEN <<SV("after a batch the estimate of a key is below the number of its accesses recorded in this ageing window")>> ELSE <<>>, r.run, r.i)]

Pure(r, verdicts) ==
  /\ UNCHANGED <<L, cnt>>
  /\ rep' = [rep EXCEPT !.steps = @ + 1, !.nverd = @ + Len(verdicts), !.verdicts = Merge(@, verdicts, 0, l)]

Next ==
  /\ l <= Len(Rec)
  /\ l' = l + 1
  /\ LET r == Rec[l] IN
       CASE r.t = "byte" -> Pure(r, JByte(r))
         [] r.t = "row" -> Pure(r, JRow(r))
         [] r.t = "size" -> Pure(r, JSize(r))
         [] r.t = "reset" -> /\ L' = LfuInit(r.counters) /\ cnt' = [k \in {} |-> 0]
                             /\ rep' = [rep EXCEPT !.runs = @ + 1,
                                                   !.verdicts = Merge(@, IF r.rowlen # RowLen(r.counters) THEN <<SV("row length does not give every position a byte")>> ELSE <<>>, r.run, 0)]
         [] r.t = "acc" -> DoAcc(r)
         [] r.t = "batch" -> DoBatch(r)
         [] OTHER -> UNCHANGED <<L, cnt, rep>>

Spec == Init /\ [][Next]_vars
Finished == l = Len(Rec) + 1
Accepted ==
  LET ok == TLCGet("stats").diameter - 1 = Len(Rec)
  IN IF ok THEN TRUE ELSE Print(<<"TRACE-NOT-CONSUMED", TLCGet("stats").diameter - 1, Len(Rec)>>, FALSE)
ReportInv == Finished => PrintT(<<"REPORT", ToJson(rep)>>)
=============================================================================
