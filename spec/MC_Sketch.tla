------------------------------ MODULE MC_Sketch ------------------------------
(* bounded access streams into a tiny sketch: the clauses of C14 as invariants / action properties *)
EXTENDS Sketch

CONSTANTS Keys, Counters, PosChoices, MaxLen

VARIABLES L, pos, cnt, len, lastAged, prevRows
vars == <<L, pos, cnt, len, lastAged, prevRows>>

Init == /\ L = LfuInit(Counters)
        /\ pos \in [Keys -> [1..Rows -> PosChoices]]
        /\ cnt = [k \in Keys |-> 0]          \* recorded accesses of k in the current ageing window
        /\ len = 0
        /\ lastAged = FALSE
        /\ prevRows = L.rows

Next == /\ len < MaxLen
        /\ \E k \in Keys :
             LET has == k \in L.dk
                 aged == Aged(L, k, pos[k], has)
             IN /\ L' = Access(L, k, pos[k], has)
                /\ cnt' = IF aged THEN [x \in Keys |-> 0] ELSE [cnt EXCEPT ![k] = @ + 1]
                /\ lastAged' = aged
                /\ prevRows' = IF ~has THEN L.rows ELSE [r \in 1..Rows |-> RowInc(L.rows[r], pos[k][r])]
        /\ len' = len + 1
        /\ UNCHANGED pos

Spec == Init /\ [][Next]_vars

Cap(n) == IF n > MaxNibble + 1 THEN MaxNibble + 1 ELSE n
NoUnderCount == \A k \in Keys : Estimate(L, k, pos[k], k \in L.dk) >= Cap(cnt[k])
Bounded == \A r \in 1..Rows : \A i \in DOMAIN L.rows[r] : L.rows[r][i] \in 0..255
AgesExactly == /\ L.total < L.resetAt
               /\ (lastAged => L.total = 0 /\ L.dk = {} /\ \A r \in 1..Rows : L.rows[r] = RowHalve(prevRows[r]))
WindowCount == L.total = len % Counters      \* ageing happens after exactly `Counters` recorded accesses
ASSUME ByteLemma
ASSUME \A c \in 1..70 : /\ NextPow2(c) >= c /\ (c > 1 => NextPow2(c) < 2 * c) /\ RowLen(c) >= 1
                        /\ \A p \in 0..(NextPow2(c) - 1) : (p \div 2) + 1 <= RowLen(c)   \* every position has a byte (D7)
=============================================================================
