SPECIFICATION Spec
CONSTANTS
  Pollers = {"c0", "c1", "c2"}
  Wakers = {1, 2}
  Final = 1
INVARIANT NoViolation
INVARIANT LockDiscipline
INVARIANT FlagImpliesStatus
INVARIANT WakesBounded
CHECK_DEADLOCK FALSE
