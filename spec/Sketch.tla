------------------------------- MODULE Sketch -------------------------------
(***************************************************************************)
(* The frequency sketch of TinyLFU at byte level:                          *)
(*  - Row: packed 4-bit counters, two per byte (frequency_counter.rs Row)  *)
(*  - FrequencyCounter: 4 rows, count-min estimate, sizing (next_power_2)  *)
(*  - TinyLFU: doorkeeper (first-access filter), total_increments, ageing  *)
(*    by halving every counter when the configured number is reached       *)
(* Hashing (64-bit) is outside the model: the POSITIONS a key maps to in   *)
(* the four rows are inputs (logged by the implementation).                *)
(***************************************************************************)
EXTENDS Integers, Sequences, FiniteSets, Bitwise, TLC

Rows == 4
MaxNibble == 15

\* ---- arithmetic definitions (what the statement says) ----
Lo(b) == b % 16
Hi(b) == b \div 16
Nib(b, p) == IF p % 2 = 0 THEN Lo(b) ELSE Hi(b)                 \* counter at position p (p even: low nibble)
SetNib(b, p, v) == IF p % 2 = 0 THEN Hi(b) * 16 + v ELSE v * 16 + Lo(b)
IncByte(b, p) == IF Nib(b, p) < MaxNibble THEN SetNib(b, p, Nib(b, p) + 1) ELSE b
HalveByte(b) == (Hi(b) \div 2) * 16 + (Lo(b) \div 2)

\* ---- transliteration of the Rust code (what the code does) ----
Shift(p) == (p % 2) * 4
CodeGet(b, p) == shiftR(b, Shift(p)) & 15
CodeInc(b, p) == IF CodeGet(b, p) < 15 THEN b + (IF Shift(p) = 0 THEN 1 ELSE 16) ELSE b
CodeHalve(b) == shiftR(b, 1) & 119      \* 0x77

\* the code's byte functions are the arithmetic ones, for all 256 bytes and both nibbles
ByteLemma == \A b \in 0..255 : \A p \in 0..1 :
               /\ CodeGet(b, p) = Nib(b, p)
               /\ CodeInc(b, p) = IncByte(b, p)
               /\ CodeHalve(b) = HalveByte(b)
               /\ CodeInc(b, p) \in 0..255
               /\ Nib(IncByte(b, p), 1 - p) = Nib(b, 1 - p)                    \* no carry into the neighbour
               /\ (Nib(b, p) = MaxNibble => IncByte(b, p) = b)                 \* saturates, never wraps
               /\ Nib(HalveByte(b), p) = Nib(b, p) \div 2                      \* halving rounds down, per counter

\* FrequencyCounter::next_power_2 and the row length
RECURSIVE Pow2AtLeast(_, _)
Pow2AtLeast(n, p) == IF p >= n THEN p ELSE Pow2AtLeast(n, 2 * p)
NextPow2(n) == Pow2AtLeast(n, 1)
RowLen(counters) == LET t == NextPow2(counters) \div 2 IN IF t < 1 THEN 1 ELSE t

\* ---- rows ----
RowInc(row, pos) == [row EXCEPT ![(pos \div 2) + 1] = IncByte(@, pos)]
RowGet(row, pos) == Nib(row[(pos \div 2) + 1], pos)
RowHalve(row) == [i \in DOMAIN row |-> HalveByte(row[i])]

Min4(s) == CHOOSE m \in {s[i] : i \in 1..Rows} : \A i \in 1..Rows : m <= s[i]

\* ---- TinyLFU ----
\* L = [rows: 4 rows, dk: set of hashes in the doorkeeper, total: increments in this window, resetAt]
LfuInit(counters) == [rows |-> [r \in 1..Rows |-> [i \in 1..RowLen(counters) |-> 0]], dk |-> {}, total |-> 0, resetAt |-> counters]

SketchEstimate(L, pos) == Min4([r \in 1..Rows |-> RowGet(L.rows[r], pos[r])])
Estimate(L, h, pos, has) == SketchEstimate(L, pos) + (IF has THEN 1 ELSE 0)

\* one recorded access of hash h mapping to positions pos; `has`: the doorkeeper's answer for h (a bloom filter: may be a false positive)
Access(L, h, pos, has) ==
  LET L1 == IF ~has THEN [L EXCEPT !.dk = @ \cup {h}]
            ELSE [L EXCEPT !.rows = [r \in 1..Rows |-> RowInc(@[r], pos[r])]]
      L2 == [L1 EXCEPT !.total = @ + 1]
  IN IF L2.total >= L2.resetAt
     THEN [L2 EXCEPT !.total = 0, !.rows = [r \in 1..Rows |-> RowHalve(@[r])], !.dk = {}]
     ELSE L2

Aged(L, h, pos, has) == L.total + 1 >= L.resetAt
=============================================================================
