----------------------------- MODULE MC_LocksRef -----------------------------
(* Locks.tla over the REFERENCE lock programs: the critical sections with nested waits of the unchanged tree
   (generated from spec/locks_reference.json, which was extracted from the real code and reviewed against it:
   poll: waker -> status; get_ref: store(r) -> buffer; sweep: ttl -> kw, ttl -> used -> store; sample: kw(r) -> lfu(r);
   update: kw -> used; evict/delete: used -> store). *)
EXTENDS Locks
RefPrograms == <<
  [role |-> "caller", ops |-> <<<<"acq", "ackWaker", 1>>, <<"acq", "ackStatus", 1>>, <<"rel", "ackStatus", 1>>, <<"rel", "ackWaker", 1>>>>],
  [role |-> "caller", ops |-> <<<<"acq", "store", 0>>, <<"acq", "buf", 1>>, <<"rel", "buf", 1>>, <<"rel", "store", 0>>>>],
  [role |-> "sweeper", ops |-> <<<<"acq", "ttl", 1>>, <<"acq", "kw", 1>>, <<"rel", "kw", 1>>, <<"acq", "used", 1>>, <<"acq", "store", 1>>, <<"rel", "store", 1>>, <<"rel", "used", 1>>, <<"rel", "ttl", 1>>>>],
  [role |-> "sweeper", ops |-> <<<<"acq", "ttl", 1>>, <<"acq", "kw", 1>>, <<"rel", "kw", 1>>, <<"rel", "ttl", 1>>>>],
  [role |-> "worker", ops |-> <<<<"acq", "kw", 0>>, <<"acq", "lfu", 0>>, <<"rel", "lfu", 0>>, <<"rel", "kw", 0>>>>],
  [role |-> "worker", ops |-> <<<<"acq", "kw", 1>>, <<"acq", "used", 1>>, <<"rel", "used", 1>>, <<"rel", "kw", 1>>>>],
  [role |-> "worker", ops |-> <<<<"acq", "used", 1>>, <<"acq", "store", 1>>, <<"rel", "store", 1>>, <<"rel", "used", 1>>>>]
>>
=============================================================================
