------------------------------- MODULE Locks -------------------------------
(***************************************************************************)
(* Wait-for analysis of the cache's locks and queues (C18).                *)
(*                                                                         *)
(* Threads are PROGRAMS given as data: sequences of                        *)
(*   <<"acq", lock, mode>>  (mode 1 exclusive / write, 0 shared / read)     *)
(*   <<"rel", lock, mode>>                                                  *)
(*   <<"send", queue, 1>>   blocking send on a bounded queue                *)
(*   <<"recv", queue, 1>>   blocking receive                                *)
(* The programs are EXTRACTED from the lock events of the real code        *)
(* (tools/locks.py; one program per critical section, lock names           *)
(* canonicalised) and read from the JSON file named by IOEnv.LOCKS; a      *)
(* reference set written by hand from the code is in MC_Locks.tla.         *)
(*                                                                         *)
(* Five thread slots: the worker, the sweeper, the access consumer and two *)
(* callers; each slot runs one program of its role (any of them), all      *)
(* interleavings.  A DEADLOCK is a non-empty set C of threads such that    *)
(* each of them waits for something only threads of C can provide:         *)
(*  - a lock held (in a conflicting mode) by threads of C; a reader also   *)
(*    waits behind a blocked writer (parking_lot's fair RwLock);           *)
(*  - room in a queue whose consumer thread is in C (the queue may be full *)
(*    at any time: its capacity is not part of the programs).              *)
(* Waiting for work (recv on an empty queue) is not a deadlock.            *)
(***************************************************************************)
EXTENDS Integers, Sequences, FiniteSets, TLC

CONSTANT Programs   \* sequence of [role |-> STRING, ops |-> Seq(<<op, lock, mode>>)]

Slots == {"worker", "sweeper", "consumer", "c1", "c2"}
RoleOf(s) == IF s \in {"c1", "c2"} THEN "caller" ELSE s
ConsumerOf(q) == IF q = "q1" THEN "worker" ELSE "consumer"

VARIABLES prog, pc, held
vars == <<prog, pc, held>>

None == 0
Choices(s) == {None} \cup {i \in DOMAIN Programs : Programs[i].role = RoleOf(s)}

Init == /\ prog \in [Slots -> {None} \cup DOMAIN Programs]
        /\ \A s \in Slots : prog[s] \in Choices(s)
        /\ pc = [s \in Slots |-> 1]
        /\ held = [s \in Slots |-> {}]

Ops(s) == IF prog[s] = None THEN <<>> ELSE Programs[prog[s]].ops
Finished(s) == pc[s] > Len(Ops(s))
Started(s) == pc[s] > 1
NextOp(s) == Ops(s)[pc[s]]

Conflicts(l, m, t) == \E h \in held[t] : h[1] = l /\ (m = 1 \/ h[2] = 1)
\* threads whose holdings prevent s from taking lock l in mode m
Holders(s, l, m) == {t \in Slots \ {s} : Conflicts(l, m, t)}
BlockedWriter(t, l) == ~Finished(t) /\ NextOp(t)[1] = "acq" /\ NextOp(t)[2] = l /\ NextOp(t)[3] = 1 /\ Holders(t, l, 1) # {}

\* who s is waiting for in the current state ({}: s can move, or waits for work only)
WaitsFor(s) ==
  IF Finished(s) THEN {}
  ELSE LET o == NextOp(s) IN
       CASE o[1] = "acq" ->
              Holders(s, o[2], o[3])
              \cup (IF o[3] = 0 THEN {t \in Slots \ {s} : BlockedWriter(t, o[2])} ELSE {})
         [] o[1] = "send" ->
              LET c == ConsumerOf(o[2]) IN IF c # s /\ Started(c) /\ ~Finished(c) THEN {c} ELSE {}
         [] OTHER -> {}

CanStep(s) == ~Finished(s) /\ (NextOp(s)[1] # "acq" \/ Holders(s, NextOp(s)[2], NextOp(s)[3]) = {})

Step(s) ==
  /\ CanStep(s)
  /\ LET o == NextOp(s) IN
       /\ held' = [held EXCEPT ![s] = CASE o[1] = "acq" -> @ \cup {<<o[2], o[3]>>}
                                        [] o[1] = "rel" -> @ \ {<<o[2], o[3]>>}
                                        [] OTHER -> @]
       /\ pc' = [pc EXCEPT ![s] = @ + 1]
       /\ UNCHANGED prog

Next == \E s \in Slots : Step(s)
Spec == Init /\ [][Next]_vars

DeadSets == {C \in SUBSET Slots : C # {} /\ \A t \in C : WaitsFor(t) # {} /\ WaitsFor(t) \subseteq C}
NoDeadlock == DeadSets = {}

\* a thread never acquires a lock it already holds (self-deadlock with parking_lot), except shared after shared
NoReentry == \A s \in Slots : ~Finished(s) /\ NextOp(s)[1] = "acq" =>
               ~\E h \in held[s] : h[1] = NextOp(s)[2] /\ (h[2] = 1 \/ NextOp(s)[3] = 1)
=============================================================================
