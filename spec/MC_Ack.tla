------------------------------- MODULE MC_Ack -------------------------------
(* All interleavings of done() with polling tasks, at the grain of the individual accesses. *)
EXTENDS Ack, Json

CONSTANTS Pollers,   \* e.g. {"c0", "c1"}
          Polls,     \* [Pollers -> Seq(waker id)]
          Final,     \* status passed to done()
          KeepHist   \* BOOLEAN: record the schedule (distinguishes paths: only for exporting behaviours)

VARIABLES st, gh, bad, idx, hist
vars == <<st, gh, bad, idx, hist>>

Actors == Pollers \cup {"worker"}

Init == /\ st = AInit(Actors, Final)
        /\ gh = AGhostInit
        /\ bad = {}
        /\ idx = [p \in Pollers |-> 0]
        /\ hist = <<>>

Step(a) ==
  /\ AEnabled(st, a)
  /\ (a \in Pollers /\ st.pc[a] = "A_Poll" => idx[a] < Len(Polls[a]))
  /\ LET site == st.pc[a]
         i2 == IF a \in Pollers /\ site = "A_Poll" THEN idx[a] + 1 ELSE IF a \in Pollers THEN idx[a] ELSE 0
         inp == [w |-> IF a \in Pollers /\ site = "A_Poll" THEN Polls[a][idx[a] + 1] ELSE 0,
                 more |-> a \in Pollers /\ i2 < Len(Polls[a])]
         E == AEff(st, a, inp)
         returned == a \in Pollers /\ site \in {"P_Flag", "P_Status"} /\ E.st.pc[a] \in {"A_Poll", "END"}
     IN /\ st' = E.st
        /\ gh' = AGhostNext(gh, st, a, E.st, E.ret)
        /\ bad' = bad \cup {v.what : v \in {AJudge(st, a, E.st, E.ret, returned, gh)[i] : i \in DOMAIN AJudge(st, a, E.st, E.ret, returned, gh)}}
        /\ idx' = IF a \in Pollers /\ site = "A_Poll" THEN [idx EXCEPT ![a] = @ + 1] ELSE idx
        /\ hist' = IF KeepHist THEN Append(hist, a) ELSE hist

StepWorker == Step("worker")
StepPoller == \E p \in Pollers : Step(p)
Next == StepWorker \/ StepPoller
Spec == Init /\ [][Next]_vars
FairSpec == Spec /\ WF_vars(StepWorker) /\ \A p \in Pollers : WF_vars(Step(p))

AllDone == st.pc["worker"] = "END" /\ \A p \in Pollers : st.pc[p] = "END"

NoViolation == bad = {}
\* direct invariants (the statement's clauses as state predicates)
LockDiscipline == st.lock # "" => st.pc[st.lock] \in {"P_Flag", "P_Status"}
FlagImpliesStatus == st.flag => st.status = st.final          \* what the repair of D1 establishes
\* liveness: every behaviour completes, and a task that keeps polling eventually gets the real status
Completes == <>AllDone
FixOff == FALSE

Export == AllDone => PrintT(<<"REPLAY", ToJson(hist)>>)
=============================================================================
