SPECIFICATION Spec
CONSTANT Programs <- RefPrograms
INVARIANT NoDeadlock
INVARIANT NoReentry
CHECK_DEADLOCK FALSE
