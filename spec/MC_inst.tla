------------------------------- MODULE MC_inst -------------------------------
(* Bounded instances of MC_CacheD: litmus programs per group of properties, and a general alphabet-driven instance. *)
EXTENDS MC_CacheD

P(op, k, v, w, ttl) == [NoOp EXCEPT !.op = op, !.k = k, !.v = v, !.w = w, !.ttl = ttl]
Rm(k) == [NoOp EXCEPT !.op = "pou", !.k = k, !.rm = TRUE]
Aw(n) == [NoOp EXCEPT !.op = "await", !.ref = n]
Rd(k, var) == [NoOp EXCEPT !.op = "get", !.k = k, !.var = var]
Shut == [NoOp EXCEPT !.op = "shutdown"]

Cfg(max, q, buffer) == [max |-> max, shards |-> 2, qsize |-> q, pool |-> 1, buffer |-> buffer, wf_base |-> 1, wf_mod |-> 1, wf_ttl |-> 0,
                        clock0 |-> 10, hash |-> "id", dwf |-> FALSE, counters |-> 64]

\* --- time to live: put with TTL, upserts changing / removing it from two callers, sweeper, clock (C03 C08 C09 C10)
ProgsTtl == [c \in {"c0", "c1"} |-> IF c = "c0" THEN <<P("put", 1, 1, 1, 1), P("pou", 1, -1, -1, 2), Rd(1, "get")>>
                                     ELSE <<Rm(1), Rd(1, "get_ref")>>]
CfgTtl == Cfg(4, 2, 8)
EstZero == [k \in {1, 2, 3} |-> 0]

\* --- admission under pressure: eviction by frequency, rejection, too heavy (C01 C05 C06)
ProgsEvict == [c \in {"c0", "c1"} |-> IF c = "c0" THEN <<P("put", 1, 1, 2, -1), P("put", 2, 1, 2, -1), P("put", 3, 1, 3, -1), P("put", 3, 1, 9, -1)>>
                                       ELSE <<P("pou", 1, -1, 1, -1), P("del", 2, -1, -1, -1)>>]
CfgEvict == Cfg(4, 2, 8)
EstMixed == [k \in {1, 2, 3} |-> IF k = 1 THEN 2 ELSE IF k = 2 THEN 0 ELSE 1]
EstCold == [k \in {1, 2, 3} |-> IF k = 3 THEN 0 ELSE 1]

\* --- shutdown racing writes, queue of size 1 (C13 C11)
ProgsShut == [c \in {"c0", "c1"} |-> IF c = "c0" THEN <<P("put", 1, 1, 1, -1), Shut, P("put", 2, 1, 1, -1), Rd(1, "get")>>
                                      ELSE <<P("put", 2, 1, 1, -1), P("del", 1, -1, -1, -1)>>]
CfgShut == Cfg(4, 1, 8)

\* --- shutdown racing a put that needs an eviction (the store is cleared before the weights: C03's pressure judge, C13)
ProgsShutP == [c \in {"c0", "c1"} |-> IF c = "c0" THEN <<P("put", 1, 1, 3, -1), Shut>>
                                       ELSE <<P("put", 2, 1, 3, -1), P("put", 3, 1, 2, -1)>>]
CfgShutP == Cfg(4, 2, 8)

\* --- reads through a one-slot buffer with the consumer running, delete in between (C02 C04 C15 C16)
ProgsReads == [c \in {"c0", "c1"} |-> IF c = "c0" THEN <<P("put", 1, 1, 1, -1), Aw(1), Rd(1, "get"), Rd(1, "get_ref"), Rd(1, "get")>>
                                       ELSE <<Rd(1, "get"), P("del", 1, -1, -1, -1), Rd(1, "get")>>]
CfgReads == Cfg(4, 2, 1)

\* --- the recorded defects D2, D4, D11 in one short program (TLC's counterexamples are replayed on the real code)
ProgsKnown == [c \in {"c0"} |-> <<P("put", 1, 1, 1, 1), Aw(1), P("put", 1, 1, 1, -1), P("pou", 1, -1, 3, -1), P("del", 1, -1, -1, -1), P("put", 1, 1, 1, -1)>>]
CfgKnown == Cfg(2, 4, 8)

\* --- general: one caller draws 3 operations from an alphabet over 2 keys (every write variant), sweeper and clock running
AlphaGen == {P("put", 1, 1, 2, -1), P("put", 1, 1, 1, 1), P("put", 2, 1, 3, -1), P("pou", 1, 1, -1, -1), P("pou", 1, -1, 3, -1),
             P("pou", 1, -1, -1, 2), Rm(1), P("del", 1, -1, -1, -1), Rd(1, "get")}
ProgsGen == [c \in {"c0"} |-> <<>>]
CfgGen == Cfg(4, 2, 8)
=============================================================================
