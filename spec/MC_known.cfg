SPECIFICATION Spec
CONSTANTS
  Callers = {"c0"}
  Programs <- ProgsKnown
  Alphabet = {}
  Budget = 0
  CfgRec <- CfgKnown
  Horizon = 3
  EstOf <- EstZero
  WithConsumer = FALSE
  WithSweeper = TRUE
  KeepHist = FALSE
INVARIANT NoViolation
CHECK_DEADLOCK FALSE
