SPECIFICATION FairSpec
CONSTANTS
  Callers = {"c0", "c1"}
  Programs <- ProgsShut
  Alphabet = {}
  Budget = 0
  CfgRec <- CfgShut
  Horizon = 0
  EstOf <- EstZero
  WithConsumer = FALSE
  WithSweeper = FALSE
  KeepHist = FALSE
INVARIANT NoViolation
PROPERTY EventuallyAcked
CHECK_DEADLOCK FALSE
