----------------------------- MODULE MC_litmus1 -----------------------------
(* two unawaited puts of one key and a delete, by two callers: the window between the existence check and the send (C05, C07, C11) *)
EXTENDS MC_CacheD
P(op, k, v, w, ttl) == [NoOp EXCEPT !.op = op, !.k = k, !.v = v, !.w = w, !.ttl = ttl]
ProgsL1 == [c \in {"c0", "c1"} |-> IF c = "c0" THEN <<P("put", 1, 1, 2, -1), P("put", 1, 1, 1, -1), P("get", 1, -1, -1, -1)>>
                                    ELSE <<P("put", 1, 1, 2, -1), P("del", 1, -1, -1, -1)>>]
CfgL1 == [max |-> 4, shards |-> 2, qsize |-> 2, pool |-> 1, buffer |-> 8, wf_base |-> 1, wf_mod |-> 1, wf_ttl |-> 0, clock0 |-> 10, hash |-> "id", dwf |-> FALSE, counters |-> 64]
EstL1 == [k \in {1, 2} |-> 0]
=============================================================================
