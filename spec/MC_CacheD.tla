----------------------------- MODULE MC_CacheD -----------------------------
(***************************************************************************)
(* Bounded model-checking instances of CacheD.tla.                         *)
(*                                                                         *)
(* The callers' programs are either fixed (litmus instances: Programs) or  *)
(* drawn from an alphabet (general instances: Alphabet, Budget).  Every    *)
(* step is judged by CacheDJudge!Judge; the verdicts are collected in      *)
(* `bad` and the invariant NoViolation says that none of them is a         *)
(* violation (verdicts of kind "known" are the recorded defects D2, D4,    *)
(* D5, D11-D13 which the model reproduces on purpose).                     *)
(***************************************************************************)
EXTENDS CacheDJudge, Json

CONSTANTS
  Callers,      \* set of caller names, e.g. {"c0", "c1"}
  Programs,     \* [Callers -> Seq(op records)] ; <<>> for callers that draw from Alphabet
  Alphabet,     \* set of op records (ids/values are filled in)
  Budget,       \* number of alphabet operations per caller without a fixed program
  CfgRec,       \* configuration record (CacheD!InitState)
  Horizon,      \* the clock may advance up to clock0 + Horizon
  EstOf,        \* [key -> frequency estimate] (the sketch is abstracted to a constant function)
  WithConsumer, \* BOOLEAN: include the access-count consumer
  WithSweeper,  \* BOOLEAN
  KeepHist      \* BOOLEAN: record the schedule in `hist` (distinguishes paths: for exporting behaviours only)

VARIABLES st, gh, bad, cur, last, hist
vars == <<st, gh, bad, cur, last, hist>>

Actors == Callers \cup {"worker", "sweeper", "consumer"}

Init ==
  /\ st = InitState(CfgRec, Actors)
  /\ gh = GhostInit(st)
  /\ bad = {}
  /\ cur = [c \in Callers |-> 0]
  /\ last = [actor |-> "", site |-> ""]
  /\ hist = <<>>

EstKey(k) == IF k \in DOMAIN EstOf THEN EstOf[k] ELSE 0

\* the sample the code would draw: every charged id (instances keep at most SampleSize ids charged)
SampleNow(S) == {[id |-> id, est |-> EstKey(S.kw[id].key), w |-> S.kw[id].w] : id \in DOMAIN S.kw}

CallerIndex(c) == CASE c = "c0" -> 1 [] c = "c1" -> 2 [] c = "c2" -> 3 [] OTHER -> 4

Stamp(c, n, op) ==
  LET id == 1000 * CallerIndex(c) + n
  IN [op EXCEPT !.id = id,
                !.v = IF op.v >= 0 THEN 100 * CallerIndex(c) + n ELSE op.v,
                !.ref = IF op.op \in {"await", "poll"} THEN 1000 * CallerIndex(c) + op.ref ELSE op.ref]

HasMore(c) == IF Programs[c] # <<>> THEN cur[c] < Len(Programs[c]) ELSE cur[c] < Budget

Inputs(S, a) ==
  LET site == S.pc[a] IN
  CASE site = "C_Idle" ->
         IF ~HasMore(a) THEN {}
         ELSE {[NoInp EXCEPT !.op = Stamp(a, cur[a] + 1, op)] :
                 op \in (IF Programs[a] # <<>> THEN {Programs[a][cur[a] + 1]} ELSE Alphabet)}
    [] site = "A_Sample" -> {[NoInp EXCEPT !.inc = EstKey(S.lc[a].cmd.key), !.sample = SampleNow(S)]}
    [] site \in {"K_DelKw", "K_DelUsed"} /\ a = "worker" -> {[NoInp EXCEPT !.refill = SampleNow(S)]}
    [] site \in {"S_Sweep", "K_DelKw", "K_DelUsed"} /\ a = "sweeper" ->
         LET todo == IF site = "S_Sweep" THEN Expired(S, S.lc[a].shard, S.lc[a].t) ELSE S.lc[a].todo
         IN IF todo = {} THEN {NoInp} ELSE {[NoInp EXCEPT !.next = n] : n \in todo}
    [] site = "C_Access" -> {[NoInp EXCEPT !.buf = i] : i \in 1..S.cfg.pool}
    [] site = "C_Get" -> {[NoInp EXCEPT !.buf = i] : i \in 1..S.cfg.pool}
    [] OTHER -> {NoInp}

\* the refill of the sample must not contain the id that is being evicted
FixRefill(S, a, inp) ==
  IF a = "worker" /\ S.pc[a] \in {"K_DelKw", "K_DelUsed"} /\ S.lc[a].mode = "evict"
  THEN [inp EXCEPT !.refill = {x \in S.lc[a].sample : x.id \in DOMAIN S.kw /\ x.id # S.lc[a].vic.id}]
  ELSE inp

KindCode(kind) == CASE kind = "put" -> 1 [] kind = "putttl" -> 2 [] kind = "del" -> 3 [] kind = "upd" -> 4 [] OTHER -> 5

\* what the trace would show for this step: next site, operation, result, and the events the judges read
ObsOf(S, a, site, inp, E) ==
  LET S2 == E.st L == S.lc[a] L2 == S2.lc[a]
      evRecv == IF a = "worker" /\ site \in {"W_Recv", "W_Drain"} /\ S.queue # <<>>
                THEN <<[e |-> "recv", f |-> <<Head(S.queue).ack>>]>> ELSE <<>>
      evVic == IF a = "worker" /\ site \in {"A_Sample", "K_DelKw", "K_DelUsed"} /\ L.cmd.kind \in {"put", "putttl"}
                  /\ (S2.pc[a] = "K_DelKw" /\ L2.mode = "evict")
               THEN <<[e |-> "victim", f |-> <<L2.vic.id, L2.vic.est, L2.vic.w, L2.inc, L2.space>>]>> ELSE <<>>
      evSend == IF IsCaller(a) /\ site = "C_Send" /\ L.cmd.kind # "none"
                THEN <<[e |-> "send", f |-> <<S.nextAck, KindCode(L.cmd.kind), L.cmd.id, L.cmd.w, L.cmd.ttl, 0, 1>>]>> ELSE <<>>
      evRel == IF site = "K_DelUsed" THEN <<[e |-> "released", f |-> <<L.vic.id, L.vic.w>>]>> ELSE <<>>
  IN [next |-> S2.pc[a],
      narg |-> IF S2.pc[a] = "S_Sweep" THEN L2.shard ELSE IF S2.pc[a] = "K_DelKw" THEN L2.id ELSE 0,
      op |-> IF site = "C_Idle" THEN inp.op ELSE L.op,
      ret |-> E.ret,
      truth |-> <<>>,
      sync |-> TRUE, agree |-> TRUE,
      ev |-> evRecv \o evVic \o evSend \o evRel]

Digest(vs) == {[prop |-> vs[i].prop, kind |-> vs[i].kind, finding |-> vs[i].finding, what |-> vs[i].what] : i \in DOMAIN vs}

Step(a) ==
  /\ Enabled(st, a)
  /\ (a = "consumer" => WithConsumer)
  /\ (a = "sweeper" => WithSweeper)
  /\ \E inp0 \in Inputs(st, a) :
       LET inp == FixRefill(st, a, inp0)
           site == st.pc[a]
           E == Eff(st, a, inp)
           o == ObsOf(st, a, site, inp, E)
           G2 == GhostNext(gh, st, a, site, inp, E.st, o)
       IN /\ st' = E.st
          /\ gh' = G2
          /\ bad' = bad \cup Digest(Judge(st, a, site, inp, E.st, o, gh, G2))
          /\ cur' = IF site = "C_Idle" /\ IsCaller(a) THEN [cur EXCEPT ![a] = @ + 1] ELSE cur
          /\ last' = [actor |-> a, site |-> site]
          /\ hist' = IF KeepHist THEN Append(hist, [a |-> a, s |-> site, d |-> 0]) ELSE hist

Advance ==
  /\ st.now < CfgRec.clock0 + Horizon
  /\ LET S2 == EffAdvance(st, 1)
         o == [next |-> "E_Advance", narg |-> 0, op |-> NoOp, ret |-> NoRet, ev |-> <<>>, truth |-> <<>>, sync |-> TRUE, agree |-> TRUE]
         G2 == GhostNext(gh, st, "env", "E_Advance", NoInp, S2, o)
     IN /\ st' = S2
        /\ gh' = G2
        /\ bad' = bad \cup Digest(Judge(st, "env", "E_Advance", NoInp, S2, o, gh, G2))
        /\ UNCHANGED cur
        /\ last' = [actor |-> "env", site |-> "E_Advance"]
        /\ hist' = IF KeepHist THEN Append(hist, [a |-> "env", s |-> "E_Advance", d |-> 1]) ELSE hist

StepCaller == \E a \in Callers : Step(a)
StepWorker == Step("worker")
StepSweeper == Step("sweeper")
StepConsumer == Step("consumer")

Next == StepCaller \/ StepWorker \/ StepSweeper \/ StepConsumer \/ Advance

Spec == Init /\ [][Next]_vars

\* ---- properties ----
NoViolation == \A v \in bad : v.kind # "violation"

\* direct statements of some of the properties as state invariants (in addition to the step judges)
Inv_C01 == ~st.shut => (st.used >= 0 /\ st.used <= st.cfg.max + SumCredit(gh, st))
Inv_TypeOK == /\ st.used \in Int
              /\ \A k \in DOMAIN st.store : st.store[k].id \in 1..(st.nextId - 1)
              /\ \A id \in DOMAIN st.kw : st.kw[id].w > 0

\* every run of the model ends (no actor is stuck for ever): used with -deadlock off, as a sanity check of the model
Terminated == /\ \A c \in Callers : ~HasMore(c) /\ st.pc[c] = "C_Idle"
              /\ st.queue = <<>>

FixOff == FALSE
\* reachability of the recorded defects in the model (each is expected to be VIOLATED: the model reproduces the defect)
NotD2 == ~\E v \in bad : v.finding = "D2"
NotD4 == ~\E v \in bad : v.finding = "D4"
NotD5 == ~\E v \in bad : v.finding = "D5"
NotD11 == ~\E v \in bad : v.finding = "D11"
NotD12 == ~\E v \in bad : v.finding = "D12"
NotD13 == ~\E v \in bad : v.finding = "D13"
NotD14 == ~\E v \in bad : v.finding = "D14"
\* ---- liveness (under weak fairness of every thread): every acknowledgement handed out completes, every caller finishes
FairSpec == Spec /\ WF_vars(StepWorker) /\ WF_vars(StepSweeper) /\ WF_vars(StepConsumer) /\ \A c \in Callers : WF_vars(Step(c))
AllAcked == \A n \in DOMAIN st.ack : st.ack[n].done
CallersDone == \A c \in Callers : ~HasMore(c) /\ st.pc[c] = "C_Idle"
EventuallyAcked == <>[](CallersDone /\ AllAcked)

\* ---- export of behaviours (direction 1: the specification chooses the schedule, the harness replays it on the real code)
StampedPrograms == [c \in Callers |-> [i \in 1..Len(Programs[c]) |-> Stamp(c, i, Programs[c][i])]]
Settled == CallersDone /\ st.queue = <<>> /\ st.pc["worker"] \in {"W_Recv", "W_Drain"} /\ st.pc["sweeper"] \in {"S_Tick", "END"}
NextExport == ~Settled /\ Next
ExportSpec == Init /\ [][NextExport]_vars
ExportScenario == (hist = <<>>) => PrintT(<<"SCENARIO", ToJson([programs |-> StampedPrograms, cfg |-> CfgRec, est |-> EstOf])>>)
ExportBehaviour == Settled => PrintT(<<"REPLAY", ToJson(hist)>>)

\* export of the behaviours that exhibit a recorded defect (TLC counterexample -> deterministic replay on the real code)
HasFinding(f) == \E v \in bad : v.finding = f
FirstTime(f) == HasFinding(f) /\ last.site # "" /\ hist # <<>>
ExportD11 == HasFinding("D11") => PrintT(<<"REPLAY", ToJson(hist)>>)
ExportD12 == HasFinding("D12") => PrintT(<<"REPLAY", ToJson(hist)>>)
ExportD13 == HasFinding("D13") => PrintT(<<"REPLAY", ToJson(hist)>>)
ExportD14 == HasFinding("D14") => PrintT(<<"REPLAY", ToJson(hist)>>)
NextUntil(f) == ~HasFinding(f) /\ Next
SpecUntilD11 == Init /\ [][NextUntil("D11")]_vars
SpecUntilD12 == Init /\ [][NextUntil("D12")]_vars
SpecUntilD13 == Init /\ [][NextUntil("D13")]_vars
SpecUntilD14 == Init /\ [][NextUntil("D14")]_vars

\* hide nothing: the ghosts are part of the state
=============================================================================
