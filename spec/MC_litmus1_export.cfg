SPECIFICATION ExportSpec
CONSTANTS
  Callers = {"c0", "c1"}
  Programs <- ProgsL1
  Alphabet = {}
  Budget = 0
  CfgRec <- CfgL1
  Horizon = 0
  EstOf <- EstL1
  WithConsumer = FALSE
  WithSweeper = FALSE
  KeepHist = TRUE
CHECK_DEADLOCK FALSE
INVARIANT ExportScenario
INVARIANT ExportBehaviour
