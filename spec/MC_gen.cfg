SPECIFICATION Spec
CONSTANTS
  Callers = {"c0"}
  Programs <- ProgsGen
  Alphabet <- AlphaGen
  Budget = 3
  CfgRec <- CfgGen
  Horizon = 2
  EstOf <- EstZero
  WithConsumer = FALSE
  WithSweeper = TRUE
  KeepHist = FALSE
INVARIANT NoViolation
INVARIANT Inv_C01
INVARIANT Inv_TypeOK
CHECK_DEADLOCK FALSE
