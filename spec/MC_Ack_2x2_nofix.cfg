SPECIFICATION FairSpec
CONSTANTS
  FixD1 <- FixOff
  Pollers = {"c0", "c1"}
  Polls <- Polls2x2
  Final = 1
  KeepHist = FALSE
INVARIANT NoViolation
INVARIANT LockDiscipline
INVARIANT FlagImpliesStatus
PROPERTY Completes
CHECK_DEADLOCK FALSE
