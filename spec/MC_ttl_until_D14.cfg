SPECIFICATION SpecUntilD14
CONSTANTS
  Callers = {"c0", "c1"}
  Programs <- ProgsTtl
  Alphabet = {}
  Budget = 0
  CfgRec <- CfgTtl
  Horizon = 3
  EstOf <- EstZero
  WithConsumer = FALSE
  WithSweeper = TRUE
  KeepHist = TRUE
CHECK_DEADLOCK FALSE
INVARIANT ExportScenario
INVARIANT ExportD14
