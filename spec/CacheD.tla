------------------------------- MODULE CacheD -------------------------------
(***************************************************************************)
(* CacheD (tinylfu-cached): the system at the grain of the critical        *)
(* sections of the Rust code.  One action per schedule point ("site") of   *)
(* /repo/src (cfg cached_verif): an actor parked at site X executes the    *)
(* code between X and its next site in one step.                           *)
(*                                                                         *)
(* The whole system state is ONE record S; every step is a pure operator   *)
(*     Eff(S, a, inp)  ->  [st |-> S', ret |-> observable result]          *)
(* where inp carries the choices the code makes itself (sample contents,   *)
(* frequency estimates, buffer index, order of expired ids).  The model    *)
(* checker quantifies over inp (MC_*.tla); the trace checker takes inp     *)
(* from the recorded step and compares Eff's prediction with the recorded  *)
(* post-state field by field (TraceCacheD.tla).                            *)
(***************************************************************************)
EXTENDS Integers, Sequences, FiniteSets, TLC

NoExp == -1          \* "no expiry"
NoVal == -1          \* "absent" result of a read
TtlEntrySize == 24   \* Calculation::ttl_ticker_entry_size()
SampleSize == 5      \* EVICTION_SAMPLE_SIZE
ChanCap == 10        \* CHANNEL_CAPACITY of the access pipeline
ShutMark == <<-1>>   \* BufferEvent::Shutdown in the access channel

\* CommandStatus codes (verif::status_code)
StPending == 0
StAccepted == 1
StShuttingDown == 2
StRejNoSpace == 10
StRejTooHeavy == 11
StRejNoKey == 12
StRejExists == 13
StErr == -2          \* Err(CommandSendError)
StNone == -1

-----------------------------------------------------------------------------
(* generic helpers *)

Range(f) == {f[x] : x \in DOMAIN f}
Restrict(f, D) == [x \in D |-> f[x]]
Without(f, x) == [y \in DOMAIN f \ {x} |-> f[y]]
With(f, x, v) == [y \in DOMAIN f \cup {x} |-> IF y = x THEN v ELSE f[y]]
EmptyFn == [x \in {} |-> 0]
Max2(a, b) == IF a > b THEN a ELSE b
Min2(a, b) == IF a < b THEN a ELSE b

RECURSIVE SumSet(_, _)
SumSet(f, D) == IF D = {} THEN 0 ELSE LET x == CHOOSE y \in D : TRUE IN f[x] + SumSet(f, D \ {x})

-----------------------------------------------------------------------------
(* records *)

NoOp == [op |-> "none", id |-> 0, k |-> -1, v |-> -1, w |-> -1, ttl |-> -1, ttl_ns |-> 0, rm |-> FALSE,
         var |-> "get", ks |-> <<>>, ref |-> 0, d |-> 0]

NoRet == [st |-> StNone, v |-> NoVal, vs |-> <<>>, exp |-> NoExp, panic |-> FALSE, ack |-> 0, n |-> 0, wakes |-> 0]

NoCmd == [ack |-> 0, kind |-> "none", key |-> -1, id |-> 0, w |-> 0, val |-> -1, ttl |-> -1]

NoVic == [id |-> 0, est |-> 0, w |-> 0]

NoLc == [op |-> NoOp, id |-> 0, w |-> 0, keys |-> <<>>, vals |-> <<>>, oldexp |-> NoExp, newexp |-> NoExp,
         uw |-> -1, cmd |-> NoCmd, space |-> 0, inc |-> 0, sample |-> {}, vic |-> NoVic, key |-> -1,
         t |-> 0, shard |-> 0, todo |-> {}, swept |-> {}, mode |-> "", batch |-> <<>>, exp |-> NoExp, val |-> NoVal]

\* inputs: what the code decides by itself in a step (see header)
NoInp == [op |-> NoOp, inc |-> 0, sample |-> {}, refill |-> {}, next |-> 0, buf |-> 1, d |-> 0]

HasV(op) == op.v >= 0
HasW(op) == op.w >= 0
HasTtl(op) == op.ttl >= 0

-----------------------------------------------------------------------------
(* derived notions *)

Alive(e, now) == ~e.soft /\ (e.exp = NoExp \/ now <= e.exp)     \* StoredValue::is_alive; has_passed is strict
Present(S, k) == k \in DOMAIN S.store                           \* Store::is_present: PHYSICAL presence
Readable(S, k) == Present(S, k) /\ Alive(S.store[k], S.now)
ShardOf(S, t) == t % S.cfg.shards
\* the configured weight calculation function: the harness' table, or the crate's default (Calculation::perform on u64 keys and
\* values: 8 + 8 + size_of WeightedKey<u64> = 40, plus the TTL ticker entry size when a time to live is given)
WF(S, k, hasTtl) == IF S.cfg.dwf THEN 40 + (IF hasTtl THEN TtlEntrySize ELSE 0)
                    ELSE S.cfg.wf_base + (k % S.cfg.wf_mod) + (IF hasTtl THEN S.cfg.wf_ttl ELSE 0)
IsCaller(a) == a \notin {"worker", "sweeper", "consumer", "env"}
WorkerAlive(S) == S.pc["worker"] \notin {"DEAD", "END"}
ConsumerAlive(S) == S.pc["consumer"] \notin {"DEAD", "END"}

\* the order of SampledKey: lowest estimate first, heavier first among equals
VicBefore(x, y) == x.est < y.est \/ (x.est = y.est /\ x.w > y.w)
MinVictims(sample) == {x \in sample : \A y \in sample : ~VicBefore(y, x)}

InitState(cfg, actors) ==
  [cfg |-> cfg,
   store |-> EmptyFn, kw |-> EmptyFn, used |-> 0,
   ttl |-> [s \in 0..(cfg.shards - 1) |-> EmptyFn],
   queue |-> <<>>, ack |-> EmptyFn,
   stats |-> [hits |-> 0, misses |-> 0, added |-> 0, deleted |-> 0, updated |-> 0, rejected |-> 0,
              wadd |-> 0, wrem |-> 0, aadd |-> 0, adrop |-> 0],
   shut |-> FALSE, keepS |-> TRUE, keepC |-> TRUE,
   now |-> cfg.clock0, nextId |-> 1, nextAck |-> 1, opack |-> EmptyFn, cmds |-> EmptyFn,
   buf |-> [i \in 1..cfg.pool |-> <<>>], chan |-> <<>>,
   pc |-> [a \in actors |-> CASE a = "worker" -> "W_Recv" [] a = "sweeper" -> "S_Tick"
                                [] a = "consumer" -> "R_Recv" [] OTHER -> "C_Idle"],
   lc |-> [a \in actors |-> NoLc]]

-----------------------------------------------------------------------------
(* small state transformers *)

SetPc(S, a, site) == [S EXCEPT !.pc[a] = site]
SetLc(S, a, l) == [S EXCEPT !.lc[a] = l]
Goto(S, a, site, l) == [S EXCEPT !.pc[a] = site, !.lc[a] = l]
Out(S, r) == [st |-> S, ret |-> r]
Stat(S, name, d) == [S EXCEPT !.stats[name] = @ + d]

\* the worker completes the acknowledgement of its current command and goes back to the queue
Done(S, a, status) ==
  LET c == S.lc[a].cmd
      S1 == IF c.ack \in DOMAIN S.ack THEN [S EXCEPT !.ack[c.ack] = [done |-> TRUE, st |-> status]] ELSE S
  IN Goto(S1, a, "W_Recv", NoLc)

\* Store::delete(key) as used by the evict hooks: removes whatever entry the KEY has now
StoreDeleteByKey(S, k) ==
  IF k \in DOMAIN S.store THEN Stat([S EXCEPT !.store = Without(@, k)], "deleted", 1) ELSE S

\* result of an op that is answered on the spot with an acknowledgement created by the caller
Immediate(S, a, status) ==
  LET n == S.nextAck
      S1 == [S EXCEPT !.ack = With(@, n, [done |-> TRUE, st |-> status]), !.nextAck = n + 1,
                      !.opack = With(@, S.lc[a].op.id, n)]
  IN Out(Goto(S1, a, "C_Idle", NoLc), [NoRet EXCEPT !.st = status, !.ack = n])

-----------------------------------------------------------------------------
(* caller steps *)

\* await / poll of an acknowledgement, atomic at this grain
EffPoll(S, a, ackNo) ==
  LET L == S.lc[a]
      known == ackNo \in DOMAIN S.ack
      ready == known /\ S.ack[ackNo].done
  IN IF ~known THEN Out(Goto(S, a, "C_Idle", NoLc), NoRet)
     ELSE IF ready THEN Out(Goto(S, a, "C_Idle", NoLc), [NoRet EXCEPT !.st = S.ack[ackNo].st, !.ack = ackNo])
     ELSE Out(Goto(S, a, IF L.op.op = "await" THEN "C_Poll" ELSE "C_Idle", IF L.op.op = "await" THEN L ELSE NoLc),
              [NoRet EXCEPT !.st = StPending, !.ack = ackNo])


Eff_C_Idle(S, a, inp) ==
  LET op == inp.op
      L == [NoLc EXCEPT !.op = op]
      isWrite == op.op \in {"put", "pou", "del"}
  IN
  CASE op.op = "put" ->
         IF S.shut THEN Out(Goto(S, a, "C_Idle", NoLc), [NoRet EXCEPT !.st = StErr])
         ELSE Out(Goto(S, a, "C_PutCheck",
                       [L EXCEPT !.w = IF HasW(op) THEN op.w ELSE WF(S, op.k, HasTtl(op))]), NoRet)
    [] op.op = "del" ->
         IF S.shut THEN Out(Goto(S, a, "C_Idle", NoLc), [NoRet EXCEPT !.st = StErr])
         ELSE Out(Goto(S, a, "C_DelMark", L), NoRet)
    [] op.op = "pou" ->
         IF S.shut THEN Out(Goto(S, a, "C_Idle", NoLc), [NoRet EXCEPT !.st = StErr])
         ELSE Out(Goto(S, a, "C_PouUpdate",
                       [L EXCEPT !.uw = IF HasW(op) THEN op.w
                                        ELSE IF HasV(op) THEN WF(S, op.k, HasTtl(op)) ELSE -1]), NoRet)
    [] op.op = "get" ->
         IF S.shut THEN Out(Goto(S, a, "C_Idle", NoLc),
                            IF op.var \in {"iter", "map_iter"} THEN NoRet ELSE NoRet)
         ELSE Out(Goto(S, a, "C_Get", [L EXCEPT !.keys = <<op.k>>]), NoRet)
    [] op.op = "mget" ->
         IF S.shut \/ op.ks = <<>> THEN Out(Goto(S, a, "C_Idle", NoLc), NoRet)
         ELSE Out(Goto(S, a, "C_Get", [L EXCEPT !.keys = op.ks]), NoRet)
    [] op.op = "await" -> Out(Goto(S, a, "C_Poll", L), NoRet)
    [] op.op = "poll" ->
         \* one poll, atomic at this grain: Ready(status) iff the flag is set
         EffPoll(SetLc(S, a, L), a, IF op.ref \in DOMAIN S.opack THEN S.opack[op.ref] ELSE 0)
    [] op.op = "shutdown" -> Out(Goto(S, a, "C_ShutFlag", L), NoRet)
    [] op.op = "weight" -> Out(Goto(S, a, "C_Idle", NoLc), [NoRet EXCEPT !.n = S.used])
    [] op.op = "stats" -> Out(Goto(S, a, "C_Idle", NoLc), NoRet)
    [] OTHER -> Out(Goto(S, a, "C_Idle", NoLc), NoRet)

Eff_C_PutCheck(S, a, inp) ==
  LET L == S.lc[a] op == L.op IN
  IF Present(S, op.k) THEN Immediate(S, a, StRejExists)
  ELSE Out(Goto([S EXCEPT !.nextId = @ + 1], a, "C_Send",
                [L EXCEPT !.id = S.nextId,
                          !.cmd = [ack |-> 0, kind |-> IF HasTtl(op) THEN "putttl" ELSE "put", key |-> op.k,
                                   id |-> S.nextId, w |-> L.w, val |-> op.v, ttl |-> op.ttl]]), NoRet)

\* CommandExecutor::send: blocking send on the bounded channel (enabled only when there is room)
SendEnabled(S) == Len(S.queue) < S.cfg.qsize \/ ~WorkerAlive(S)

Eff_C_Send(S, a, inp) ==
  LET L == S.lc[a] n == S.nextAck
      c == [L.cmd EXCEPT !.ack = n]
      after == IF L.op.op = "shutdown" THEN "C_ShutPolicy" ELSE "C_Idle"
  IN
  IF ~WorkerAlive(S) /\ S.pc["worker"] = "DEAD"
  THEN \* the receiver is gone: send returns an error, no acknowledgement is handed out
       Out(Goto([S EXCEPT !.nextAck = n + 1], a, after, IF after = "C_Idle" THEN NoLc ELSE L),
           [NoRet EXCEPT !.st = StErr])
  ELSE Out(Goto([S EXCEPT !.queue = Append(@, c), !.ack = With(@, n, [done |-> FALSE, st |-> StPending]),
                          !.nextAck = n + 1, !.cmds = With(@, n, c),
                          !.opack = IF L.op.op = "shutdown" THEN @ ELSE With(@, L.op.id, n)],
                a, after, IF after = "C_Idle" THEN NoLc ELSE L),
           IF after = "C_Idle" THEN [NoRet EXCEPT !.st = StPending, !.ack = n] ELSE NoRet)

Eff_C_DelMark(S, a, inp) ==
  LET L == S.lc[a] k == L.op.k
      S1 == IF Present(S, k) THEN [S EXCEPT !.store[k].soft = TRUE] ELSE S
  IN Out(Goto(S1, a, "C_Send",
              [L EXCEPT !.cmd = [NoCmd EXCEPT !.kind = "del", !.key = k]]), NoRet)

\* Store::update + StoredValue::update: in place, on ANY physically present entry (also dead ones)
Eff_C_PouUpdate(S, a, inp) ==
  LET L == S.lc[a] op == L.op k == op.k IN
  IF ~Present(S, k)
  THEN IF ~HasV(op) \/ L.uw <= 0
       THEN \* assert!(value.is_some()) / assert!(weight > 0): the documented precondition is violated
            Out(Goto(S, a, "C_Idle", NoLc), [NoRet EXCEPT !.panic = TRUE])
       ELSE Out(Goto([S EXCEPT !.nextId = @ + 1], a, "C_Send",
                     [L EXCEPT !.id = S.nextId,
                               !.cmd = [ack |-> 0, kind |-> IF HasTtl(op) THEN "putttl" ELSE "put", key |-> k,
                                        id |-> S.nextId, w |-> L.uw, val |-> op.v, ttl |-> op.ttl]]), NoRet)
  ELSE LET e == S.store[k]
           newexp == IF op.rm THEN NoExp ELSE IF HasTtl(op) THEN S.now + op.ttl ELSE e.exp
           newval == IF HasV(op) THEN op.v ELSE e.val
       IN Out(Goto([S EXCEPT !.store[k] = [e EXCEPT !.val = newval, !.exp = newexp]], a, "C_PouWeightOf",
                   [L EXCEPT !.id = e.id, !.oldexp = e.exp, !.newexp = newexp]), NoRet)

\* after the in-place update: what has to happen to the TTL index and to the charged weight
PouAfterIndex(S, a, L) ==
  IF L.w > 0
  THEN Out(Goto(S, a, "C_Send", [L EXCEPT !.cmd = [NoCmd EXCEPT !.kind = "upd", !.id = L.id, !.w = L.w]]), NoRet)
  ELSE Immediate(S, a, StAccepted)

Eff_C_PouWeightOf(S, a, inp) ==
  LET L == S.lc[a]
      existing == IF L.id \in DOMAIN S.kw THEN S.kw[L.id].w ELSE 0
      kind == CASE L.oldexp = NoExp /\ L.newexp = NoExp -> "nothing"
                [] L.oldexp = NoExp /\ L.newexp # NoExp -> "added"
                [] L.oldexp # NoExp /\ L.newexp = NoExp -> "deleted"
                [] L.oldexp # L.newexp -> "updated"
                [] OTHER -> "nothing"
      w == CASE kind = "added" -> IF L.uw > 0 THEN L.uw ELSE existing + TtlEntrySize
             [] kind = "deleted" -> IF L.uw > 0 THEN L.uw ELSE Max2(1, existing - TtlEntrySize)
             [] OTHER -> L.uw
      L1 == [L EXCEPT !.w = w]
  IN CASE kind = "added" -> Out(Goto(S, a, "T_Put", [L1 EXCEPT !.exp = L.newexp]), NoRet)
       [] kind = "deleted" -> Out(Goto(S, a, "T_Del", [L1 EXCEPT !.exp = L.oldexp]), NoRet)
       [] kind = "updated" -> Out(Goto(S, a, "T_UpdRemove", L1), NoRet)
       [] OTHER -> PouAfterIndex(S, a, L1)

Eff_T_UpdRemove(S, a, inp) ==
  LET L == S.lc[a] s == ShardOf(S, L.oldexp)
  IN Out(Goto([S EXCEPT !.ttl[s] = IF L.id \in DOMAIN @ THEN Without(@, L.id) ELSE @], a, "T_UpdInsert", L), NoRet)

Eff_T_UpdInsert(S, a, inp) ==
  LET L == S.lc[a] s == ShardOf(S, L.newexp)
  IN PouAfterIndex([S EXCEPT !.ttl[s] = With(@, L.id, L.newexp)], a, L)

\* one key of a read: alive filter + hit/miss statistics, atomically under the shard guard
GetNext(S, a, L, v) ==
  LET vals == Append(L.vals, v) rest == Tail(L.keys) op == L.op
      Fin(vs) == Out(Goto(S, a, "C_Idle", NoLc),
                     IF op.op = "mget" THEN [NoRet EXCEPT !.vs = vs] ELSE [NoRet EXCEPT !.v = vs[1]])
  IN
  IF rest = <<>> THEN Fin(vals)
  ELSE IF S.shut
       THEN \* is_shutting_down is re-read before every key: multi_get maps the rest to None, the iterators stop
            IF op.var \in {"iter", "map_iter"} THEN Fin(vals)
            ELSE Fin(vals \o [i \in 1..Len(rest) |-> NoVal])
       ELSE Out(Goto(S, a, "C_Get", [L EXCEPT !.keys = rest, !.vals = vals]), NoRet)

\* Pool::add -> Buffer::add -> AdmissionPolicy::accept (select! send / default)
AccessStep(S, a, L, inp) ==
  LET k == L.key i == inp.buf
      b == S.buf[i]
      full == Len(b) >= S.cfg.buffer
      canSend == Len(S.chan) < ChanCap /\ ConsumerAlive(S)
      S1 == IF full
            THEN IF canSend THEN Stat([S EXCEPT !.chan = Append(@, b), !.buf[i] = <<>>], "aadd", Len(b))
                 ELSE Stat([S EXCEPT !.buf[i] = <<>>], "adrop", Len(b))
            ELSE S
      S2 == [S1 EXCEPT !.buf[i] = Append(@, k)]
      R == GetNext(S2, a, L, L.val)
  IN IF L.op.var = "get_ref" /\ R.st.pc[a] = "C_Idle" THEN [R EXCEPT !.ret.exp = L.exp, !.ret.n = k] ELSE R

Eff_C_Access(S, a, inp) == AccessStep(S, a, S.lc[a], inp)

Eff_C_Get(S, a, inp) ==
  IF S.lc[a].keys = <<>> THEN Out(S, NoRet) ELSE
  LET L == S.lc[a] op == L.op k == Head(L.keys) IN
  \* (the shutdown flag was read before this schedule point)
  IF Readable(S, k)
  THEN LET L1 == [L EXCEPT !.key = k, !.val = S.store[k].val, !.exp = S.store[k].exp]
           S1 == Stat(S, "hits", 1)
       IN IF op.var \in {"get_ref", "map_get_ref"}
          THEN \* the reference guard is held across the access recording: one atomic step
               AccessStep(S1, a, L1, inp)
          ELSE Out(Goto(S1, a, "C_Access", L1), NoRet)
  ELSE GetNext(Stat(S, "misses", 1), a, L, NoVal)

(* shutdown() *)
Eff_C_ShutFlag(S, a, inp) ==
  LET L == S.lc[a] IN
  IF S.shut THEN Out(Goto(S, a, "C_Idle", NoLc), NoRet)
  ELSE Out(Goto([S EXCEPT !.shut = TRUE], a, "C_Send", [L EXCEPT !.cmd = [NoCmd EXCEPT !.kind = "shut"]]), NoRet)

ShutPolicyEnabled(S) == Len(S.chan) < ChanCap \/ ~ConsumerAlive(S)

Eff_C_ShutPolicy(S, a, inp) ==
  LET S1 == IF ConsumerAlive(S) THEN [S EXCEPT !.chan = Append(@, ShutMark)] ELSE S
  IN Out(SetPc([S1 EXCEPT !.keepC = FALSE], a, "C_ShutTicker"), NoRet)

Eff_C_ShutTicker(S, a, inp) == Out(SetPc([S EXCEPT !.keepS = FALSE], a, "C_ShutStore"), NoRet)

Eff_C_ShutStore(S, a, inp) == Out(SetPc([S EXCEPT !.store = EmptyFn], a, "C_ShutClearPolicy"), NoRet)

Eff_C_ShutClearPolicy(S, a, inp) ==
  Out(SetPc([S EXCEPT !.kw = EmptyFn, !.used = 0,
                      !.stats = [n \in DOMAIN S.stats |-> 0]], a, "C_ShutClearTtl"), NoRet)

ShutClearTtlEnabled(S) == S.pc["sweeper"] \notin {"K_DelKw", "K_DelUsed"}

Eff_C_ShutClearTtl(S, a, inp) ==
  Out(Goto([S EXCEPT !.ttl = [s \in DOMAIN S.ttl |-> EmptyFn]], a, "C_Idle", NoLc), NoRet)

-----------------------------------------------------------------------------
(* TTL index operations shared by callers and the worker *)

TtlEnabled(S, a, shard) ==
  \* the sweeper holds the write lock of the shard it is sweeping across its evict hooks
  ~(a # "sweeper" /\ S.pc["sweeper"] \in {"K_DelKw", "K_DelUsed"} /\ S.lc["sweeper"].shard = shard)

Eff_T_Put(S, a, inp) ==
  LET L == S.lc[a] s == ShardOf(S, L.exp)
      S1 == [S EXCEPT !.ttl[s] = With(@, L.id, L.exp)]
  IN IF a = "worker" THEN Out(Done(S1, a, StAccepted), NoRet) ELSE PouAfterIndex(S1, a, L)

Eff_T_Del(S, a, inp) ==
  LET L == S.lc[a] s == ShardOf(S, L.exp)
      S1 == [S EXCEPT !.ttl[s] = IF L.id \in DOMAIN @ THEN Without(@, L.id) ELSE @]
  IN IF a = "worker" THEN Out(Done(S1, a, StAccepted), NoRet) ELSE PouAfterIndex(S1, a, L)

-----------------------------------------------------------------------------
(* the command worker *)

RecvEnabled(S) == S.queue # <<>>

Eff_W_Recv(S, a, inp) ==
  IF S.queue = <<>> THEN Out(S, NoRet) ELSE
  LET c == Head(S.queue)
      S1 == [S EXCEPT !.queue = Tail(@)]
      L == [NoLc EXCEPT !.cmd = c, !.id = c.id, !.w = c.w, !.key = c.key]
  IN CASE c.kind \in {"put", "putttl"} -> Out(Goto(S1, a, "W_PutCheck", L), NoRet)
       [] c.kind = "del" -> Out(Goto(S1, a, "W_DelStore", L), NoRet)
       [] c.kind = "upd" -> Out(Goto(S1, a, "K_Update", L), NoRet)
       [] c.kind = "shut" ->
            Out(Goto(IF c.ack \in DOMAIN S1.ack THEN [S1 EXCEPT !.ack[c.ack] = [done |-> TRUE, st |-> StAccepted]] ELSE S1,
                     a, "W_Drain", NoLc), NoRet)
       [] OTHER -> Out(Goto(S1, a, "W_Recv", NoLc), NoRet)

Eff_W_Drain(S, a, inp) ==
  IF S.queue = <<>> THEN Out(S, NoRet) ELSE
  LET c == Head(S.queue)
      S1 == [S EXCEPT !.queue = Tail(@)]
  IN Out(Goto(IF c.ack \in DOMAIN S1.ack THEN [S1 EXCEPT !.ack[c.ack] = [done |-> TRUE, st |-> StShuttingDown]] ELSE S1,
              a, "W_Drain", NoLc), NoRet)

\* the repair of D3: the worker re-checks presence (FixD3 can be overridden to model the tree before the repair)
FixD3 == TRUE
Eff_W_PutCheck(S, a, inp) ==
  LET L == S.lc[a] IN
  IF FixD3 /\ Present(S, L.key) THEN Out(Done(S, a, StRejExists), NoRet)
  ELSE Out(Goto(S, a, "A_Space", L), NoRet)

Eff_A_Space(S, a, inp) ==
  LET L == S.lc[a] space == S.cfg.max - S.used IN
  IF L.w > S.cfg.max THEN Out(Done(Stat(S, "rejected", 1), a, StRejTooHeavy), NoRet)
  ELSE IF space >= L.w THEN Out(Goto(S, a, "K_AddKw", L), NoRet)
  ELSE Out(Goto(S, a, "A_Sample", [L EXCEPT !.space = space]), NoRet)

(* create_space: the loop body up to its next schedule point.
   space: the value of `space_available`; sample: set of [id, est, w]; inc: estimate of the incoming key *)
EvictLoop(S, a, L, space, sample, pick) ==
  IF space >= L.w THEN Out(Goto(S, a, "K_AddKw", [L EXCEPT !.space = space, !.sample = sample]), NoRet)
  ELSE IF sample = {}
       THEN IF S.cfg.max - S.used >= L.w
            THEN Out(Goto(S, a, "K_AddKw", [L EXCEPT !.space = space, !.sample = sample]), NoRet)
            ELSE Out(Done(Stat(S, "rejected", 1), a, StRejNoSpace), NoRet)
       ELSE LET mins == MinVictims(sample)
                v == IF \E x \in mins : x.id = pick THEN CHOOSE x \in mins : x.id = pick
                     ELSE CHOOSE x \in mins : \A y \in mins : x.id <= y.id IN
            IF L.inc < v.est THEN Out(Done(Stat(S, "rejected", 1), a, StRejNoSpace), NoRet)
            ELSE Out(Goto(S, a, "K_DelKw",
                          [L EXCEPT !.space = space, !.sample = sample \ {v}, !.vic = v, !.mode = "evict"]), NoRet)

Eff_A_Sample(S, a, inp) ==
  LET L == [S.lc[a] EXCEPT !.inc = inp.inc]
  IN EvictLoop(S, a, L, L.space, inp.sample, inp.next)

\* the sweeper's retain(): the next expired id of the shard (in the order of the hash map), or the end of the sweep
SweepNext(S, a, L, inp) ==
  IF L.todo = {}
  THEN \* retain() has dropped every expired entry; the shard lock is released before the next schedule point
       Out(Goto([S EXCEPT !.ttl[L.shard] = Restrict(@, DOMAIN @ \ L.swept)], a, "S_Done", L), NoRet)
  ELSE LET id == IF inp.next \in L.todo THEN inp.next ELSE CHOOSE x \in L.todo : \A y \in L.todo : x <= y
       IN Out(Goto(S, a, "K_DelKw", [L EXCEPT !.id = id, !.todo = @ \ {id}]), NoRet)

\* CacheWeight::delete, first half: key_weights.remove(id)
Eff_K_DelKw(S, a, inp) ==
  LET L == S.lc[a]
      id == IF L.mode = "evict" THEN L.vic.id ELSE L.id
  IN
  IF id \in DOMAIN S.kw
  THEN Out(Goto([S EXCEPT !.kw = Without(@, id)], a, "K_DelUsed",
                [L EXCEPT !.key = S.kw[id].key, !.vic = [L.vic EXCEPT !.w = S.kw[id].w, !.id = id]]), NoRet)
  ELSE \* not charged (any more): nothing is released, the delete hook is not called
       CASE L.mode = "evict" -> EvictLoop(S, a, L, S.cfg.max - S.used, inp.refill, inp.next)
         [] L.mode = "del" ->
              IF L.exp # NoExp THEN Out(Goto(S, a, "T_Del", L), NoRet) ELSE Out(Done(S, a, StAccepted), NoRet)
         [] OTHER -> SweepNext(S, a, L, inp)

\* CacheWeight::delete, second half: weight_used -= w; delete_hook(key); statistics
Eff_K_DelUsed(S, a, inp) ==
  LET L == S.lc[a] w == L.vic.w
      S1 == Stat([S EXCEPT !.used = @ - w], "wrem", w)
      S2 == IF L.mode = "del" THEN S1 ELSE StoreDeleteByKey(S1, L.key)
  IN CASE L.mode = "evict" -> EvictLoop(S2, a, L, S2.cfg.max - S2.used, inp.refill, inp.next)
       [] L.mode = "del" ->
            IF L.exp # NoExp THEN Out(Goto(S2, a, "T_Del", L), NoRet) ELSE Out(Done(S2, a, StAccepted), NoRet)
       [] OTHER -> SweepNext(S2, a, L, inp)

Eff_K_AddKw(S, a, inp) ==
  LET L == S.lc[a]
  IN Out(Goto([S EXCEPT !.kw = With(@, L.id, [key |-> L.cmd.key, w |-> L.w])], a, "K_AddUsed", L), NoRet)

Eff_K_AddUsed(S, a, inp) ==
  LET L == S.lc[a]
  IN Out(Goto(Stat([S EXCEPT !.used = @ + L.w], "wadd", L.w), a, "W_StorePut", L), NoRet)

Eff_W_StorePut(S, a, inp) ==
  LET L == S.lc[a] c == L.cmd
      exp == IF c.kind = "putttl" THEN S.now + c.ttl ELSE NoExp
      S1 == Stat([S EXCEPT !.store = With(@, c.key, [val |-> c.val, id |-> c.id, exp |-> exp, soft |-> FALSE])],
                 "added", 1)
  IN IF c.kind = "putttl" THEN Out(Goto(S1, a, "T_Put", [L EXCEPT !.exp = exp]), NoRet)
     ELSE Out(Done(S1, a, StAccepted), NoRet)

\* CacheWeight::update: no bound check; the status is Accepted whatever happens
Eff_K_Update(S, a, inp) ==
  LET L == S.lc[a] id == L.id IN
  IF id \in DOMAIN S.kw
  THEN LET old == S.kw[id].w
           S1 == [S EXCEPT !.used = @ + (L.w - old), !.kw[id].w = L.w]
           S2 == Stat(Stat(S1, "updated", 1), "wadd", L.w - old)
       IN Out(Done(S2, a, StAccepted), NoRet)
  ELSE Out(Done(S, a, StAccepted), NoRet)

Eff_W_DelStore(S, a, inp) ==
  LET L == S.lc[a] k == L.key IN
  IF Present(S, k)
  THEN LET e == S.store[k]
       IN Out(Goto(Stat([S EXCEPT !.store = Without(@, k)], "deleted", 1), a, "K_DelKw",
                   [L EXCEPT !.id = e.id, !.exp = e.exp, !.mode = "del"]), NoRet)
  ELSE Out(Done(S, a, StRejNoKey), NoRet)

-----------------------------------------------------------------------------
(* the expiry sweeper *)

Expired(S, shard, t) == {id \in DOMAIN S.ttl[shard] : S.ttl[shard][id] < t}     \* !(now <= expire_after)

Eff_S_Tick(S, a, inp) ==
  Out(Goto(S, a, "S_Sweep", [NoLc EXCEPT !.t = S.now, !.shard = ShardOf(S, S.now)]), NoRet)

\* takes the shard's write lock; visits the expired ids in the (unspecified) order of the hash map
Eff_S_Sweep(S, a, inp) ==
  LET L == S.lc[a] todo == Expired(S, L.shard, L.t)
  IN SweepNext(S, a, [L EXCEPT !.todo = todo, !.swept = todo, !.mode = "sweep"], inp)

\* the end of the loop body: keep_running is read
Eff_S_Done(S, a, inp) == Out(Goto(S, a, IF S.keepS THEN "S_Tick" ELSE "END", NoLc), NoRet)

-----------------------------------------------------------------------------
(* the access-count consumer *)

ConsumerEnabled(S) == S.chan # <<>>

Eff_R_Recv(S, a, inp) ==
  IF S.chan = <<>> THEN Out(S, NoRet) ELSE
  LET b == Head(S.chan) S1 == [S EXCEPT !.chan = Tail(@)] IN
  IF b = ShutMark THEN Out(Goto(S1, a, "END", NoLc), NoRet)
  ELSE Out(Goto(S1, a, "R_Apply", [NoLc EXCEPT !.batch = b]), NoRet)

Eff_R_Apply(S, a, inp) ==
  Out(Goto(S, a, IF S.keepC THEN "R_Recv" ELSE "END", NoLc), NoRet)

-----------------------------------------------------------------------------
(* dispatch *)

Enabled(S, a) ==
  LET site == S.pc[a] IN
  CASE site = "C_Send" -> SendEnabled(S)
    [] site \in {"W_Recv", "W_Drain"} -> RecvEnabled(S)
    [] site = "R_Recv" -> ConsumerEnabled(S)
    [] site = "C_ShutPolicy" -> ShutPolicyEnabled(S)
    [] site = "C_ShutClearTtl" -> ShutClearTtlEnabled(S)
    [] site \in {"T_Put", "T_Del"} -> TtlEnabled(S, a, ShardOf(S, S.lc[a].exp))
    [] site = "T_UpdRemove" -> TtlEnabled(S, a, ShardOf(S, S.lc[a].oldexp))
    [] site = "T_UpdInsert" -> TtlEnabled(S, a, ShardOf(S, S.lc[a].newexp))
    [] site \in {"END", "DEAD", "HANG"} -> FALSE
    [] OTHER -> TRUE

Modelled == {"C_Idle", "C_Poll", "C_PutCheck", "C_Send", "C_DelMark", "C_PouUpdate", "C_PouWeightOf", "T_UpdRemove",
             "T_UpdInsert", "T_Put", "T_Del", "C_Get", "C_Access", "C_ShutFlag", "C_ShutPolicy", "C_ShutTicker",
             "C_ShutStore", "C_ShutClearPolicy", "C_ShutClearTtl", "W_Recv", "W_Drain", "W_PutCheck", "A_Space",
             "A_Sample", "K_DelKw", "K_DelUsed", "K_AddKw", "K_AddUsed", "W_StorePut", "K_Update", "W_DelStore",
             "S_Tick", "S_Sweep", "S_Done", "R_Recv", "R_Apply"}

Eff(S, a, inp) ==
  LET site == S.pc[a] IN
  CASE site = "C_Idle" -> Eff_C_Idle(S, a, inp)
    [] site = "C_PutCheck" -> Eff_C_PutCheck(S, a, inp)
    [] site = "C_Send" -> Eff_C_Send(S, a, inp)
    [] site = "C_DelMark" -> Eff_C_DelMark(S, a, inp)
    [] site = "C_PouUpdate" -> Eff_C_PouUpdate(S, a, inp)
    [] site = "C_PouWeightOf" -> Eff_C_PouWeightOf(S, a, inp)
    [] site = "T_UpdRemove" -> Eff_T_UpdRemove(S, a, inp)
    [] site = "T_UpdInsert" -> Eff_T_UpdInsert(S, a, inp)
    [] site = "T_Put" -> Eff_T_Put(S, a, inp)
    [] site = "T_Del" -> Eff_T_Del(S, a, inp)
    [] site = "C_Get" -> Eff_C_Get(S, a, inp)
    [] site = "C_Access" -> Eff_C_Access(S, a, inp)
    [] site = "C_Poll" -> EffPoll(S, a, IF S.lc[a].op.ref \in DOMAIN S.opack THEN S.opack[S.lc[a].op.ref] ELSE 0)
    [] site = "C_ShutFlag" -> Eff_C_ShutFlag(S, a, inp)
    [] site = "C_ShutPolicy" -> Eff_C_ShutPolicy(S, a, inp)
    [] site = "C_ShutTicker" -> Eff_C_ShutTicker(S, a, inp)
    [] site = "C_ShutStore" -> Eff_C_ShutStore(S, a, inp)
    [] site = "C_ShutClearPolicy" -> Eff_C_ShutClearPolicy(S, a, inp)
    [] site = "C_ShutClearTtl" -> Eff_C_ShutClearTtl(S, a, inp)
    [] site = "W_Recv" -> Eff_W_Recv(S, a, inp)
    [] site = "W_Drain" -> Eff_W_Drain(S, a, inp)
    [] site = "W_PutCheck" -> Eff_W_PutCheck(S, a, inp)
    [] site = "A_Space" -> Eff_A_Space(S, a, inp)
    [] site = "A_Sample" -> Eff_A_Sample(S, a, inp)
    [] site = "K_DelKw" -> Eff_K_DelKw(S, a, inp)
    [] site = "K_DelUsed" -> Eff_K_DelUsed(S, a, inp)
    [] site = "K_AddKw" -> Eff_K_AddKw(S, a, inp)
    [] site = "K_AddUsed" -> Eff_K_AddUsed(S, a, inp)
    [] site = "W_StorePut" -> Eff_W_StorePut(S, a, inp)
    [] site = "K_Update" -> Eff_K_Update(S, a, inp)
    [] site = "W_DelStore" -> Eff_W_DelStore(S, a, inp)
    [] site = "S_Tick" -> Eff_S_Tick(S, a, inp)
    [] site = "S_Sweep" -> Eff_S_Sweep(S, a, inp)
    [] site = "S_Done" -> Eff_S_Done(S, a, inp)
    [] site = "R_Recv" -> Eff_R_Recv(S, a, inp)
    [] site = "R_Apply" -> Eff_R_Apply(S, a, inp)
    [] OTHER -> Out(S, NoRet)

\* the environment: the configured clock moves forward
EffAdvance(S, d) == [S EXCEPT !.now = @ + d]

Quiescent(S) ==
  /\ S.queue = <<>>
  /\ S.pc["worker"] \in {"W_Recv", "W_Drain", "DEAD", "END"}
  /\ S.pc["sweeper"] \in {"S_Tick", "END", "DEAD"}
  /\ \A a \in DOMAIN S.pc : IsCaller(a) => S.pc[a] \in {"C_Idle", "END", "DEAD"}

=============================================================================
