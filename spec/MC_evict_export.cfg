SPECIFICATION ExportSpec
CONSTANTS
  Callers = {"c0", "c1"}
  Programs <- ProgsEvict
  Alphabet = {}
  Budget = 0
  CfgRec <- CfgEvict
  Horizon = 0
  EstOf <- EstMixed
  WithConsumer = FALSE
  WithSweeper = FALSE
  KeepHist = TRUE
CHECK_DEADLOCK FALSE
INVARIANT ExportScenario
INVARIANT ExportBehaviour
