----------------------------- MODULE TraceFinal -----------------------------
(* Quiescent final states of FREE-RUNNING stress rounds (real concurrency, no scheduler) judged by the quiescence clauses
   of C05, C15 and C16: the same identities as in CacheDJudge, evaluated by TLC on the projected state of the real cache. *)
EXTENDS Integers, Sequences, FiniteSets, TLC, Json, IOUtils

Rec == ndJsonDeserialize(IOEnv.TRACE)

VARIABLES l, rep
vars == <<l, rep>>

FV(prop, what) == [prop |-> prop, kind |-> "violation", finding |-> "", what |-> what]

RECURSIVE Merge(_, _, _, _)
Merge(acc, new, run, i) ==
  IF new = <<>> THEN acc
  ELSE LET v == Head(new)
           hit == {j \in DOMAIN acc : acc[j].prop = v.prop /\ acc[j].what = v.what}
           acc2 == IF hit = {} THEN Append(acc, v @@ [n |-> 1, run |-> run, i |-> i])
                   ELSE LET j == CHOOSE x \in hit : TRUE IN [acc EXCEPT ![j].n = @ + 1]
       IN Merge(acc2, Tail(new), run, i)

RECURSIVE SumSeq(_)
SumSeq(s) == IF s = <<>> THEN 0 ELSE Head(s) + SumSeq(Tail(s))

Range(s) == {s[i] : i \in DOMAIN s}

JFinal(r) ==
  LET st == r.s.stats   \* hits, misses, added, deleted, updated, rejected, wadd, wrem, aadd, adrop
      storeIds == {e.id : e \in Range(r.s.store)}
      kwIds == {e.id : e \in Range(r.s.kw)}
      sumW == SumSeq([i \in DOMAIN r.s.kw |-> r.s.kw[i].w])
      buffered == SumSeq(r.s.buf)
  IN (IF st[1] # buffered + st[9] + st[10]
      THEN <<FV("C15", "hits are not the sum of buffered, delivered and dropped access records (free-running readers)")>> ELSE <<>>)
     \o (IF st[1] + st[2] # r.lookups THEN <<FV("C16", "hits + misses differs from the number of key lookups (free-running)")>> ELSE <<>>)
     \o (IF st[3] - st[4] # Cardinality(storeIds) THEN <<FV("C16", "keys added - keys deleted differs from the number of keys held (free-running)")>> ELSE <<>>)
     \o (IF st[7] - st[8] # r.s.used THEN <<FV("C16", "weight added - weight removed differs from the total weight used (free-running)")>> ELSE <<>>)
     \o (IF kwIds # storeIds \/ sumW # r.s.used THEN <<FV("C05", "charged ids / total weight do not match the held entries at quiescence (free-running)")>> ELSE <<>>)
     \o (IF \E e \in Range(r.s.kw) : \E h \in Range(r.s.store) : h.k = e.k /\ h.id # e.id /\ e.id \notin storeIds
         THEN <<FV("C07", "a held key has a second, older key id that is still charged: an accepted put replaced an entry that was present (free-running)")>> ELSE <<>>)
     \o (IF r.s.used < 0 THEN <<FV("C01", "total weight used is negative (free-running)")>> ELSE <<>>)

Init == l = 1 /\ rep = [div |-> <<>>, verdicts |-> <<>>, steps |-> 0, runs |-> 0, unmodelled |-> {}, ndiv |-> 0, nverd |-> 0]

Next ==
  /\ l <= Len(Rec)
  /\ l' = l + 1
  /\ LET r == Rec[l] vs == IF r.t = "final" /\ r.s.qlen = 0 /\ r.s.chlen = 0 THEN JFinal(r) ELSE <<>> IN
       rep' = [rep EXCEPT !.steps = @ + 1, !.runs = @ + 1, !.nverd = @ + Len(vs), !.verdicts = Merge(@, vs, r.run, 0)]

Spec == Init /\ [][Next]_vars
Finished == l = Len(Rec) + 1
Accepted ==
  LET ok == TLCGet("stats").diameter - 1 = Len(Rec)
  IN IF ok THEN TRUE ELSE Print(<<"TRACE-NOT-CONSUMED", TLCGet("stats").diameter - 1, Len(Rec)>>, FALSE)
ReportInv == Finished => PrintT(<<"REPORT", ToJson(rep)>>)
=============================================================================
