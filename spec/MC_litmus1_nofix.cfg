SPECIFICATION Spec
CONSTANTS
  FixD3 <- FixOff
  Callers = {"c0", "c1"}
  Programs <- ProgsL1
  Alphabet = {}
  Budget = 0
  CfgRec <- CfgL1
  Horizon = 0
  EstOf <- EstL1
  WithConsumer = FALSE
  WithSweeper = FALSE
  KeepHist = FALSE
INVARIANT NoViolation
INVARIANT Inv_C01
INVARIANT Inv_TypeOK
CHECK_DEADLOCK FALSE
