SPECIFICATION Spec
CONSTANTS
  Callers = {"c0", "c1"}
  Programs <- ProgsTtl
  Alphabet = {}
  Budget = 0
  CfgRec <- CfgTtl
  Horizon = 3
  EstOf <- EstZero
  WithConsumer = FALSE
  WithSweeper = TRUE
  KeepHist = FALSE
INVARIANT NotD13
CHECK_DEADLOCK FALSE
