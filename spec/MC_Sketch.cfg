SPECIFICATION Spec
CONSTANTS
  Keys = {1, 2}
  Counters = 20
  PosChoices = {0, 1, 31}
  MaxLen = 44
INVARIANT NoUnderCount
INVARIANT Bounded
INVARIANT AgesExactly
INVARIANT WindowCount
CHECK_DEADLOCK FALSE
