SPECIFICATION Spec
CONSTANTS
  Callers = {"c0", "c1"}
  Programs <- ProgsShut
  Alphabet = {}
  Budget = 0
  CfgRec <- CfgShut
  Horizon = 0
  EstOf <- EstZero
  WithConsumer = FALSE
  WithSweeper = FALSE
INVARIANT NoViolation
INVARIANT Inv_C01
INVARIANT Inv_TypeOK
CHECK_DEADLOCK FALSE
