SPECIFICATION Spec
CONSTANTS
  Callers = {"c0", "c1"}
  Programs <- ProgsShutP
  Alphabet = {}
  Budget = 0
  CfgRec <- CfgShutP
  Horizon = 0
  EstOf <- EstZero
  WithConsumer = FALSE
  WithSweeper = FALSE
  KeepHist = FALSE
INVARIANT NoViolation
INVARIANT Inv_C01
INVARIANT Inv_TypeOK
CHECK_DEADLOCK FALSE
