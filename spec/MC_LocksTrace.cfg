SPECIFICATION Spec
CONSTANT Programs <- Extracted
INVARIANT NoDeadlock
INVARIANT NoReentry
CHECK_DEADLOCK FALSE
