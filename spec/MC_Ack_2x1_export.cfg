SPECIFICATION Spec
CONSTANTS
  Pollers = {"c0", "c1"}
  Polls <- Polls2x1
  Final = 1
  KeepHist = TRUE
INVARIANT Export
CHECK_DEADLOCK FALSE
