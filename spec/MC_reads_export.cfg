SPECIFICATION ExportSpec
CONSTANTS
  Callers = {"c0", "c1"}
  Programs <- ProgsReads
  Alphabet = {}
  Budget = 0
  CfgRec <- CfgReads
  Horizon = 0
  EstOf <- EstZero
  WithConsumer = TRUE
  WithSweeper = FALSE
  KeepHist = TRUE
CHECK_DEADLOCK FALSE
INVARIANT ExportScenario
INVARIANT ExportBehaviour
