------------------------------ MODULE TraceAck ------------------------------
(* Trace validation of the real CommandAcknowledgement against Ack.tla (same scheme as TraceCacheD.tla). *)
EXTENDS Ack, Json, IOUtils

Rec == ndJsonDeserialize(IOEnv.TRACE)

VARIABLES l, st, gh, rep
vars == <<l, st, gh, rep>>

SeqRange(s) == {s[i] : i \in DOMAIN s}
WakesOf(arr) == [w \in {e.w : e \in SeqRange(arr)} |-> (CHOOSE x \in SeqRange(arr) : x.w = w).n]

Init == l = 1 /\ st = [none |-> TRUE] /\ gh = [none |-> TRUE]
        /\ rep = [div |-> <<>>, verdicts |-> <<>>, steps |-> 0, runs |-> 0, unmodelled |-> {}, ndiv |-> 0, nverd |-> 0]

RECURSIVE Merge(_, _, _, _)
Merge(acc, new, run, i) ==
  IF new = <<>> THEN acc
  ELSE LET v == Head(new)
           hit == {j \in DOMAIN acc : acc[j].prop = v.prop /\ acc[j].kind = v.kind /\ acc[j].finding = v.finding /\ acc[j].what = v.what}
           acc2 == IF hit = {} THEN Append(acc, v @@ [n |-> 1, run |-> run, i |-> i])
                   ELSE LET j == CHOOSE x \in hit : TRUE IN [acc EXCEPT ![j].n = @ + 1]
       IN Merge(acc2, Tail(new), run, i)

\* observed: flag, status cell, wake counts, the actor's next site; inferred: slot, lock, current wakers
Adopted(P, r) ==
  [P EXCEPT !.flag = r.s.flag, !.status = r.s.status,
            !.wakes = [w \in DOMAIN WakesOf(r.s.wakes) |-> WakesOf(r.s.wakes)[w]],
            !.pc = IF r.actor \in DOMAIN P.pc THEN [P.pc EXCEPT ![r.actor] = r.next] ELSE P.pc]

NonZero(f) == [w \in {x \in DOMAIN f : f[x] # 0} |-> f[w]]

DoReset(r) ==
  /\ st' = AInit({"worker"} \cup DOMAIN r.cfg.pollers, r.cfg.status)
  /\ gh' = AGhostInit
  /\ rep' = [rep EXCEPT !.runs = @ + 1]

DoStep(r) ==
  LET a == r.actor
      known == a \in DOMAIN st.pc /\ st.pc[a] = r.site
      inp == [w |-> r.w, more |-> r.next = "A_Poll"]
      E == IF known THEN AEff(st, a, inp) ELSE [st |-> st, ret |-> ANoRet]
      A == Adopted(E.st, r)
      ret == [st |-> r.ret.st, ready |-> r.ret.ready]
      div == IF ~known THEN {}
             ELSE {f \in {"flag", "status", "wakes", "pc", "ret"} :
                     CASE f = "flag" -> E.st.flag # A.flag
                       [] f = "status" -> E.st.status # A.status
                       [] f = "wakes" -> NonZero(E.st.wakes) # NonZero(A.wakes)
                       [] f = "pc" -> E.st.pc[a] # A.pc[a]
                       [] OTHER -> r.returned /\ (E.ret.st # ret.st \/ E.ret.ready # ret.ready)}
      verdicts == AJudge(st, a, A, ret, r.returned, gh)
  IN /\ st' = A
     /\ gh' = AGhostNext(gh, st, a, A, ret)
     /\ rep' = [rep EXCEPT !.steps = @ + 1,
                           !.ndiv = @ + (IF div = {} THEN 0 ELSE 1),
                           !.div = IF div # {} /\ Len(@) < 40
                                   THEN Append(@, [run |-> r.run, i |-> r.i, actor |-> a, site |-> r.site, next |-> r.next, fields |-> div]) ELSE @,
                           !.unmodelled = IF ~known THEN @ \cup {r.site} ELSE @,
                           !.nverd = @ + Len(verdicts),
                           !.verdicts = Merge(@, verdicts, r.run, r.i)]

Next ==
  /\ l <= Len(Rec)
  /\ l' = l + 1
  /\ LET r == Rec[l] IN
       CASE r.t = "reset" -> DoReset(r)
         [] r.t = "step" -> DoStep(r)
         [] OTHER -> UNCHANGED <<st, gh, rep>>

Spec == Init /\ [][Next]_vars
Finished == l = Len(Rec) + 1
Accepted ==
  LET ok == TLCGet("stats").diameter - 1 = Len(Rec)
  IN IF ok THEN TRUE ELSE Print(<<"TRACE-NOT-CONSUMED", TLCGet("stats").diameter - 1, Len(Rec)>>, FALSE)
ReportInv == Finished => PrintT(<<"REPORT", ToJson(rep)>>)
=============================================================================
