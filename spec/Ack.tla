-------------------------------- MODULE Ack --------------------------------
(***************************************************************************)
(* The acknowledgement of a command (CommandAcknowledgementHandle) at the  *)
(* grain of its individual shared-memory accesses:                         *)
(*   done(status):  D_Status (status cell := status)  ; D_Flag (flag :=    *)
(*                  true) ; D_Wake (lock waker slot, wake the registered   *)
(*                  waker, unlock)                                         *)
(*   poll(waker):   P_Lock (lock the waker slot, register the waker unless *)
(*                  the registered one will wake the same task) ; P_Flag   *)
(*                  (load the flag) ; P_Status (read the status cell) ;    *)
(*                  the slot's lock is released when poll returns          *)
(* Same style as CacheD.tla: one record S, AEff(S, a, inp) per site.       *)
(***************************************************************************)
EXTENDS Integers, Sequences, FiniteSets, TLC

APending == 0      \* CommandStatus::Pending (the placeholder)
NoWaker == 0

AWith(f, x, v) == [y \in DOMAIN f \cup {x} |-> IF y = x THEN v ELSE f[y]]
AGet(f, x, d) == IF x \in DOMAIN f THEN f[x] ELSE d

\* the repair of D1 (status before flag); can be overridden to model the tree before the repair
FixD1 == TRUE

AInit(actors, final) ==
  [flag |-> FALSE, status |-> APending, slot |-> NoWaker, lock |-> "", wakes |-> [w \in {} |-> 0], final |-> final,
   pc |-> [a \in actors |-> IF a = "worker" THEN "A_Done" ELSE "A_Poll"],
   w |-> [a \in actors |-> NoWaker]]

ANoRet == [st |-> -1, ready |-> FALSE]

AOut(S, r) == [st |-> S, ret |-> r]

AEnabled(S, a) ==
  CASE S.pc[a] \in {"P_Lock", "D_Wake"} -> S.lock = ""
    [] S.pc[a] \in {"END", "DEAD"} -> FALSE
    [] OTHER -> TRUE

\* inp.w: the waker the poll is made with; inp.more: the poller polls again afterwards
AEff(S, a, inp) ==
  LET site == S.pc[a]
      after == IF inp.more THEN "A_Poll" ELSE "END"
  IN
  CASE site = "A_Done" -> AOut([S EXCEPT !.pc[a] = IF FixD1 THEN "D_Status" ELSE "D_Flag"], ANoRet)
    [] site = "D_Status" -> AOut([S EXCEPT !.status = S.final, !.pc[a] = IF FixD1 THEN "D_Flag" ELSE "D_Wake"], ANoRet)
    [] site = "D_Flag" -> AOut([S EXCEPT !.flag = TRUE, !.pc[a] = IF FixD1 THEN "D_Wake" ELSE "D_Status"], ANoRet)
    [] site = "D_Wake" ->
         AOut([S EXCEPT !.wakes = IF S.slot # NoWaker THEN AWith(@, S.slot, AGet(@, S.slot, 0) + 1) ELSE @,
                        !.pc[a] = "END"], ANoRet)
    [] site = "A_Poll" -> AOut([S EXCEPT !.w[a] = inp.w, !.pc[a] = "P_Lock"], ANoRet)
    [] site = "P_Lock" ->
         AOut([S EXCEPT !.lock = a, !.slot = IF S.slot = NoWaker \/ S.slot # S.w[a] THEN S.w[a] ELSE @,
                        !.pc[a] = "P_Flag"], ANoRet)
    [] site = "P_Flag" ->
         IF S.flag THEN AOut([S EXCEPT !.pc[a] = "P_Status"], ANoRet)
         ELSE AOut([S EXCEPT !.lock = "", !.pc[a] = after], [st |-> APending, ready |-> FALSE])
    [] site = "P_Status" ->
         AOut([S EXCEPT !.lock = "", !.pc[a] = after], [st |-> S.status, ready |-> TRUE])
    [] OTHER -> AOut(S, ANoRet)

-----------------------------------------------------------------------------
(* C12 as judges of single steps *)

AV(what) == [prop |-> "C12", kind |-> "violation", finding |-> "", what |-> what]

AGhostInit == [ready |-> -1]     \* the status some poll has already yielded, -1: none yet

AGhostNext(G, S, a, S2, ret) == IF ret.ready /\ G.ready = -1 THEN [G EXCEPT !.ready = ret.st] ELSE G

\* returned: the poll of actor a returned in this step with result ret
AJudge(S, a, S2, ret, returned, G) ==
  LET site == S.pc[a] IN
  (IF returned /\ ret.ready /\ ret.st = APending
   THEN <<AV("a poll yielded the placeholder status Pending")>> ELSE <<>>)
  \o (IF returned /\ ret.ready /\ ret.st # APending /\ ret.st # S.final
      THEN <<AV("a poll yielded a status other than the one the command ended with")>> ELSE <<>>)
  \o (IF returned /\ G.ready # -1 /\ (~ret.ready \/ ret.st # G.ready)
      THEN <<AV("a poll after a completed one did not yield the same status")>> ELSE <<>>)
  \o (IF site = "D_Wake" /\ S.slot # NoWaker /\ AGet(S2.wakes, S.slot, 0) # AGet(S.wakes, S.slot, 0) + 1
      THEN <<AV("the waker registered by the most recent poll was not woken on completion")>> ELSE <<>>)
  \o (IF site = "D_Wake" /\ \E w \in DOMAIN S2.wakes : w # S.slot /\ AGet(S2.wakes, w, 0) # AGet(S.wakes, w, 0)
      THEN <<AV("completion woke a waker that is not the registered one")>> ELSE <<>>)
  \o (IF returned /\ ~ret.ready /\ S.pc["worker"] = "END"
      THEN <<AV("a poll returned Pending after the completion had already woken the registered waker (lost wake-up)")>> ELSE <<>>)
  \o (IF returned /\ ~ret.ready /\ S.slot # S.w[a]
      THEN <<AV("a poll returned Pending without its waker being registered")>> ELSE <<>>)
  \o (IF site # "D_Wake" /\ \E w \in DOMAIN S2.wakes \cup DOMAIN S.wakes : AGet(S2.wakes, w, 0) # AGet(S.wakes, w, 0)
      THEN <<AV("a waker was woken outside the completion")>> ELSE <<>>)
=============================================================================
