SPECIFICATION Spec
INVARIANT ReportInv
POSTCONDITION Accepted
CHECK_DEADLOCK FALSE
