SPECIFICATION ExportSpec
CONSTANTS
  Callers = {"c0", "c1"}
  Programs <- ProgsShut
  Alphabet = {}
  Budget = 0
  CfgRec <- CfgShut
  Horizon = 0
  EstOf <- EstZero
  WithConsumer = FALSE
  WithSweeper = FALSE
  KeepHist = TRUE
CHECK_DEADLOCK FALSE
INVARIANT ExportScenario
INVARIANT ExportBehaviour
