SPECIFICATION FairSpec
CONSTANTS
  Pollers = {"c0", "c1"}
  Polls <- Polls2x3
  Final = 1
  KeepHist = FALSE
INVARIANT NoViolation
INVARIANT LockDiscipline
INVARIANT FlagImpliesStatus
PROPERTY Completes
CHECK_DEADLOCK FALSE
