---------------------------- MODULE TraceCacheD ----------------------------
(***************************************************************************)
(* Trace validation: every line of the ndjson file (IOEnv.TRACE) is one    *)
(* step of the real cache under the deterministic scheduler, with the      *)
(* projected state after the step.  For each line:                         *)
(*   1. Eff (the specification's action for that actor/site) predicts the  *)
(*      post-state from the current one and the logged choices;            *)
(*   2. the observed post-state is adopted (the code is the truth);        *)
(*   3. every field in which prediction and observation differ is a        *)
(*      DIVERGENCE (reported, never fatal);                                *)
(*   4. the judges of CacheDJudge (the properties C01..C18, the same       *)
(*      operators the model checker uses) are evaluated on the step        *)
(*      (pre-state, observed post-state, observed result, ghosts).         *)
(* The verdicts are accumulated and printed as one JSON line at the end.   *)
(***************************************************************************)
EXTENDS CacheDJudge, Json, IOUtils

Rec == ndJsonDeserialize(IOEnv.TRACE)

VARIABLES l, st, gh, rep, pred, lp
vars == <<l, st, gh, rep, pred, lp>>

\* Lock grain: a run may also yield in front of every traced lock acquisition (sites L_AcqR / L_AcqW).  The span from a
\* named site X to the next named site Y is then recorded as X -> L -> ... -> L -> Y.  The specification's action for X is
\* applied when the span ends; the records before are sub-steps.  If no sub-step before the last changed anything that
\* a snapshot shows (the point X sits right in front of the critical section), the last record IS the specification's step
\* and is checked like any other.  Otherwise (an effect before a lock acquisition, or several critical sections in one
\* span) the observed states are adopted as they come, the action is not predicted, and the judges that rely on the
\* specification's locals of that actor stay silent until it starts its next command.
IsL(x) == x \in {"L_AcqR", "L_AcqW"}

-----------------------------------------------------------------------------
(* JSON -> model values *)

SeqRange(s) == {s[i] : i \in DOMAIN s}

StoreOf(arr) == [k \in {e.k : e \in SeqRange(arr)} |->
                   LET e == CHOOSE x \in SeqRange(arr) : x.k = k
                   IN [val |-> e.v, id |-> e.id, exp |-> e.exp, soft |-> e.soft]]

KwOf(arr) == [id \in {e.id : e \in SeqRange(arr)} |->
                LET e == CHOOSE x \in SeqRange(arr) : x.id = id IN [key |-> e.k, w |-> e.w]]

TtlShardOf(arr) == [id \in {e.id : e \in SeqRange(arr)} |->
                      (CHOOSE x \in SeqRange(arr) : x.id = id).exp]

TtlOf(arr) == [s \in 0..(Len(arr) - 1) |-> TtlShardOf(arr[s + 1])]

StatsOf(a) == [hits |-> a[1], misses |-> a[2], added |-> a[3], deleted |-> a[4], updated |-> a[5],
               rejected |-> a[6], wadd |-> a[7], wrem |-> a[8], aadd |-> a[9], adrop |-> a[10]]

AcksOf(arr) == [n \in {e.a : e \in SeqRange(arr)} |->
                  LET e == CHOOSE x \in SeqRange(arr) : x.a = n IN [done |-> e.done, st |-> IF e.done THEN e.st ELSE StPending]]

CfgOf(c) == [max |-> IF c.max_weight > Huge THEN Huge ELSE c.max_weight,   \* (a cache weight near i64::MAX: see HugeCfg)
              shards |-> c.shards, qsize |-> c.qsize, pool |-> c.pool, buffer |-> c.buffer,
             wf_base |-> c.wf_base, wf_mod |-> IF c.wf_mod < 1 THEN 1 ELSE c.wf_mod, wf_ttl |-> c.wf_ttl,
             clock0 |-> c.clock0, hash |-> c.hash, dwf |-> c.default_weight_fn, counters |-> c.counters]

HasEv(r, name) == \E i \in DOMAIN r.ev : r.ev[i].e = name
EvF(r, name) == r.ev[CHOOSE i \in DOMAIN r.ev : r.ev[i].e = name /\ \A j \in DOMAIN r.ev : r.ev[j].e = name => i <= j].f
LastEvF(r, name) == r.ev[CHOOSE i \in DOMAIN r.ev : r.ev[i].e = name /\ \A j \in DOMAIN r.ev : r.ev[j].e = name => i >= j].f

\* [id, est, w] triples starting at position `from` of an event's fields
Triples(f, from) == {[id |-> f[i], est |-> f[i + 1], w |-> f[i + 2]] :
                       i \in {j \in from..Len(f) : (j - from) % 3 = 0 /\ j + 2 <= Len(f)}}

InpOf(r) ==
  [op |-> r.op,
   inc |-> IF HasEv(r, "sample") THEN EvF(r, "sample")[2] ELSE 0,
   sample |-> IF HasEv(r, "sample") THEN Triples(EvF(r, "sample"), 3) ELSE {},
   refill |-> IF HasEv(r, "refill") THEN Triples(LastEvF(r, "refill"), 3) ELSE {},
   next |-> IF r.actor = "sweeper" THEN (IF r.next = "K_DelKw" THEN r.narg ELSE 0)
            ELSE IF HasEv(r, "victim") THEN LastEvF(r, "victim")[1] ELSE 0,
   buf |-> IF HasEv(r, "buffer") THEN EvF(r, "buffer")[1] + 1 ELSE 1,
   d |-> r.op.d]

-----------------------------------------------------------------------------
(* adoption and comparison *)

\* observed part of the state after the step, on top of the predicted state P (which carries the inferred parts)
Adopted(P, r) ==
  LET obsAck == AcksOf(r.s.acks)
      ack2 == [n \in DOMAIN P.ack \cup DOMAIN obsAck |-> IF n \in DOMAIN obsAck THEN obsAck[n] ELSE P.ack[n]]
      sendAcks == {r.ev[i].f[1] : i \in {j \in DOMAIN r.ev : r.ev[j].e = "send"}}
      seen == DOMAIN obsAck \cup sendAcks     \* (the record carries only the acknowledgements that are new or changed)
      maxAck == IF seen = {} THEN 0 ELSE CHOOSE n \in seen : \A m \in seen : n >= m
      ids == {r.s.kw[i].id : i \in DOMAIN r.s.kw} \cup {r.s.store[i].id : i \in DOMAIN r.s.store}
             \cup (IF r.next = "C_Send" /\ r.narg > 0 THEN {r.narg} ELSE {})
      maxId == IF ids = {} THEN 0 ELSE CHOOSE n \in ids : \A m \in ids : n >= m
  IN [P EXCEPT !.store = StoreOf(r.s.store), !.kw = KwOf(r.s.kw), !.used = r.s.used, !.ttl = TtlOf(r.s.ttl),
               !.stats = StatsOf(r.s.stats), !.shut = r.s.shut, !.keepS = r.s.keep_s, !.keepC = r.s.keep_c,
               !.now = r.s.now, !.ack = ack2,
               !.buf = [i \in DOMAIN P.buf |-> IF i \in DOMAIN r.s.buf /\ Len(P.buf[i]) # r.s.buf[i]
                                                THEN [j \in 1..r.s.buf[i] |-> 0] ELSE P.buf[i]],
               !.chan = IF Len(P.chan) = r.s.chlen THEN P.chan
                        ELSE IF Len(P.chan) > r.s.chlen THEN SubSeq(P.chan, 1, r.s.chlen)
                        ELSE P.chan \o [j \in 1..(r.s.chlen - Len(P.chan)) |-> <<0>>],
               !.nextAck = Max2(P.nextAck, maxAck + 1), !.nextId = Max2(P.nextId, maxId + 1),
               \* (an actor inside a span keeps the site of the span)
               !.pc = [a \in DOMAIN P.pc |-> IF a \in DOMAIN r.pc /\ ~IsL(r.pc[a]) THEN r.pc[a] ELSE P.pc[a]]]

\* fields in which the prediction P differs from the observation (r, A = Adopted(P, r))
DivFields(P, A, r, predRet) ==
  {f \in {"store", "kw", "used", "ttl", "stats", "shut", "keepS", "keepC", "now", "pc", "qlen", "chlen", "buf", "ack", "ret"} :
     CASE f = "store" -> P.store # A.store
       [] f = "kw" -> P.kw # A.kw
       [] f = "used" -> P.used # A.used
       [] f = "ttl" -> P.ttl # A.ttl
       [] f = "stats" -> P.stats # A.stats
       [] f = "shut" -> P.shut # A.shut
       [] f = "keepS" -> P.keepS # A.keepS
       [] f = "keepC" -> P.keepC # A.keepC
       [] f = "now" -> P.now # A.now
       [] f = "pc" -> r.actor \in DOMAIN P.pc /\ P.pc[r.actor] # A.pc[r.actor]
       [] f = "qlen" -> Len(P.queue) + r.unb # r.s.qlen   \* (unb = 1: a sender blocked on the full queue pushed during this step; its own record follows)
       [] f = "chlen" -> Len(P.chan) # r.s.chlen
       [] f = "buf" -> [i \in DOMAIN P.buf |-> Len(P.buf[i])] # r.s.buf
       [] f = "ack" -> \E n \in DOMAIN P.ack : P.ack[n] # A.ack[n]
       [] f = "ret" -> r.next = "C_Idle" /\ IsCaller(r.actor) /\
                       (predRet.st # r.ret.st \/ predRet.v # r.ret.v \/ predRet.vs # r.ret.vs \/ predRet.panic # r.ret.panic
                        \/ predRet.ack # r.ret.ack \/ (r.op.op = "weight" /\ predRet.n # r.ret.n)
                        \/ (r.op.var = "get_ref" /\ r.op.op = "get" /\ predRet.exp # r.ret.exp))
       [] OTHER -> FALSE}

-----------------------------------------------------------------------------
(* the trace machine *)

Init == l = 1 /\ st = [none |-> TRUE] /\ gh = [none |-> TRUE] /\ pred = [none |-> TRUE] /\ lp = EmptyFn
        /\ rep = [div |-> <<>>, verdicts |-> <<>>, steps |-> 0, runs |-> 0, unmodelled |-> {}, ndiv |-> 0, nverd |-> 0, oor |-> 0,
                  sites |-> [x \in {} |-> 0], lsub |-> 0, lexact |-> 0, lsplit |-> 0]

MaxKept == 40

\* distinct verdicts with a count and the first place where each was seen
RECURSIVE Merge(_, _, _, _)
Merge(acc, new, run, i) ==
  IF new = <<>> THEN acc
  ELSE LET v == Head(new)
           hit == {j \in DOMAIN acc : acc[j].prop = v.prop /\ acc[j].kind = v.kind /\ acc[j].finding = v.finding /\ acc[j].what = v.what}
           acc2 == IF hit = {} THEN Append(acc, v @@ [n |-> 1, run |-> run, i |-> i])
                   ELSE LET j == CHOOSE x \in hit : TRUE IN [acc EXCEPT ![j].n = @ + 1]
       IN Merge(acc2, Tail(new), run, i)

DoReset(r) ==
  LET S0 == InitState(CfgOf(r.cfg), DOMAIN r.pc)
  IN /\ st' = Adopted(S0, r)
     /\ gh' = GhostPreload(GhostInit(st'), r.freq, st'.cfg)
     /\ pred' = [none |-> TRUE]
     /\ lp' = EmptyFn
     /\ rep' = [rep EXCEPT !.runs = @ + 1]

\* the observation handed to the judges: the record plus whether the specification's locals of the actor can be trusted
Obs(r, sync, agree) == [t |-> r.t, run |-> r.run, i |-> r.i, actor |-> r.actor, site |-> r.site, arg |-> r.arg, next |-> r.next, narg |-> r.narg,
                 op |-> r.op, ret |-> r.ret, ev |-> r.ev, truth |-> r.truth, sync |-> sync, agree |-> agree]

\* pred: the prediction for the current step (TLC does not memoise LET definitions that depend on the state, so every value
\* that is used more than once is first bound to a primed variable and then read back)
DoStepK(r, trusted, span) ==
  LET a == r.actor
      isEnv == a = "env"
      \* a total cache weight near i64::MAX is outside the range of the specification's (32-bit) arithmetic: such runs are
      \* only watched for panics and hangs (C17), nothing is predicted and no other judge is evaluated
      hugeCfg == st.cfg.max >= Huge
      known == trusted /\ ~hugeCfg /\ ~isEnv /\ a \in DOMAIN st.pc /\ st.pc[a] = r.site /\ r.site \in Modelled
  IN /\ pred' = LET inp == InpOf(r)
                    E == IF isEnv THEN [st |-> EffAdvance(st, r.op.d), ret |-> NoRet]
                         ELSE IF known THEN Eff(st, a, inp) ELSE [st |-> st, ret |-> NoRet]
                IN [st |-> E.st, ret |-> E.ret, inp |-> inp]
     /\ st' = LET \* (the record carries only the acknowledgements that changed: when the thread died in this step, the ones the
                  \*  specification expected it to complete did not change)
                  A0 == Adopted(IF r.next = "DEAD" THEN [pred'.st EXCEPT !.ack = st.ack] ELSE pred'.st, r) IN
              \* the position of a multi-key read follows the OBSERVED lookups (one C_Get step each), whatever the model predicted
              IF ~isEnv /\ IsCaller(a) /\ r.site \in {"C_Get", "C_Access"} /\ r.op.op \in {"get", "mget"} /\ a \in DOMAIN gh.obs
                 /\ r.next \in {"C_Get", "C_Access"}
              THEN LET ks == ReadKeySeq(r.op)
                       done == Len(gh.obs[a]) + (IF r.site = "C_Get" THEN 1 ELSE 0)
                       from == IF r.next = "C_Access" THEN done ELSE done + 1
                   IN [A0 EXCEPT !.lc[a].keys = IF from >= 1 /\ from <= Len(ks) THEN SubSeq(ks, from, Len(ks)) ELSE <<>>,
                                 !.lc[a].op = r.op]
              ELSE IF ~isEnv /\ a = "worker" /\ r.site \in {"W_Recv", "W_Drain"} /\ HasEv(r, "recv")
                      /\ EvF(r, "recv")[1] \in DOMAIN st.cmds /\ st.queue # <<>> /\ Head(st.queue).ack # EvF(r, "recv")[1]
              THEN \* the worker received another command than the head of the model's queue (C11 judges that): follow the code
                   LET c == st.cmds[EvF(r, "recv")[1]]
                       pos == {i \in DOMAIN st.queue : st.queue[i].ack = c.ack}
                       q2 == IF pos = {} THEN st.queue ELSE LET i == CHOOSE x \in pos : TRUE IN SubSeq(st.queue, 1, i - 1) \o SubSeq(st.queue, i + 1, Len(st.queue))
                   IN [A0 EXCEPT !.queue = q2,
                                 !.lc[a] = IF r.site = "W_Drain" THEN NoLc ELSE [NoLc EXCEPT !.cmd = c, !.id = c.id, !.w = c.w, !.key = c.key]]
              ELSE IF hugeCfg /\ a = "worker" /\ HasEv(r, "recv")
              THEN [A0 EXCEPT !.lc[a].w = EvF(r, "recv")[4]]     \* (nothing is predicted in such a run: keep the weight at hand for J_C17)
              ELSE IF ~isEnv /\ a = "sweeper" /\ HasEv(r, "sweep")
              THEN [A0 EXCEPT !.lc[a].t = EvF(r, "sweep")[1], !.lc[a].shard = EvF(r, "sweep")[3],
                              !.lc[a].id = IF r.next = "K_DelKw" THEN r.narg ELSE @]
              ELSE IF ~isEnv /\ a = "sweeper" /\ r.next = "K_DelKw"
              THEN [A0 EXCEPT !.lc[a].id = r.narg]
              ELSE A0
     /\ gh' = IF hugeCfg THEN (IF r.site = "K_Update" THEN [gh EXCEPT !.loose = TRUE] ELSE gh)   \* (marks: a weight update ran, D2 may apply)
              ELSE
              LET g == GhostNext(gh, st, a, r.site, pred'.inp, st', Obs(r, isEnv \/ known, isEnv \/ (known /\ pred'.st.pc[a] = r.next)))
              IN IF span /\ ~trusted THEN [g EXCEPT !.loose = TRUE] ELSE g
     /\ rep' = LET A == st'
                   \* values near i64::MAX / Duration::MAX are clamped in the trace (two-zone encoding): arithmetic on them is outside the model's range
                   oor == \/ hugeCfg \/ A.used >= Huge \/ st.used >= Huge \/ A.used <= -Huge
                          \/ \E id \in DOMAIN A.kw : A.kw[id].w >= Huge
                          \/ \E n \in DOMAIN A.stats : A.stats[n] >= Huge \/ A.stats[n] <= -Huge
                          \/ \E k \in DOMAIN A.store : A.store[k].exp >= 1000000
                          \/ r.op.w >= Huge \/ r.op.ttl >= 1000000 \/ r.op.ttl_ns # 0   \* (the model's clock has whole seconds)
                          \/ (a \in DOMAIN st.lc /\ (st.lc[a].w >= Huge \/ st.lc[a].cmd.ttl >= 1000000 \/ st.lc[a].cmd.w >= Huge \/ st.lc[a].exp >= 1000000))
                   div == IF (isEnv \/ known) /\ ~oor /\ ~gh.loose THEN DivFields(pred'.st, A, r, pred'.ret) ELSE {}   \* (loose: the locals are stale)
                   newV == IF hugeCfg
                           THEN J_C17(st, a, r.site, pred'.inp, A, Obs(r, FALSE, FALSE), gh, gh')
                                \* the bound itself, from the harness's exact 64-bit comparison (no weight update has run: D2 cannot explain it)
                                \o (IF r.s.over /\ ~gh'.loose /\ ~A.shut
                                    THEN <<[prop |-> "C01", kind |-> "violation", finding |-> "", what |-> "total weight used exceeds the cache weight (cache weight near the top of the 64-bit range)"]>> ELSE <<>>)
                                \o (IF r.s.neg /\ ~A.shut
                                    THEN <<[prop |-> "C01", kind |-> "violation", finding |-> "", what |-> "total weight used is negative (cache weight near the top of the 64-bit range)"]>> ELSE <<>>)
                           ELSE
                           Judge(st, a, r.site, pred'.inp, A, Obs(r, isEnv \/ known, isEnv \/ (known /\ pred'.st.pc[a] = r.next)), gh, gh')
               IN [rep EXCEPT
                     !.steps = @ + 1,
                     !.lexact = @ + (IF span /\ trusted THEN 1 ELSE 0),
                     !.lsplit = @ + (IF span /\ ~trusted THEN 1 ELSE 0),
                     !.ndiv = @ + (IF div = {} THEN 0 ELSE 1),
                     !.div = IF div # {} /\ Len(@) < MaxKept
                             THEN Append(@, [run |-> r.run, i |-> r.i, actor |-> a, site |-> r.site, next |-> r.next, fields |-> div])
                             ELSE @,
                     !.unmodelled = IF ~isEnv /\ ~known /\ trusted /\ ~hugeCfg THEN @ \cup {r.site} ELSE @,
                     !.oor = @ + (IF oor THEN 1 ELSE 0),
                     !.sites = [x \in DOMAIN @ \cup {r.site} |-> IF x = r.site THEN (IF x \in DOMAIN @ THEN @[x] ELSE 0) + 1 ELSE @[x]],
                     !.nverd = @ + Len(newV),
                     !.verdicts = Merge(@, newV, r.run, r.i)]

\* what a snapshot shows of the state
DataOf(S) == <<S.store, S.kw, S.used, S.ttl, S.stats, S.shut, S.keepS, S.keepC, S.now, S.ack, Len(S.chan),
               [i \in DOMAIN S.buf |-> Len(S.buf[i])]>>

\* A sub-step of a span (the actor arrives at a lock point).  As long as the span has changed nothing that a snapshot shows,
\* the observed state is adopted.  From its first change on, the changes are DEFERRED (not adopted): if the span ends before
\* any other thread moves, its last record is compared with the specification's step of the span's site as a whole (exact,
\* however many critical sections the span has).  If another thread moves first, the deferred changes are adopted at that
\* moment (Flush, so that they are not attributed to the other thread) and the span is "dirty": not predicted, and only the
\* state-level judges run for the rest of the run.
NoSpan(r) == [site |-> r.site, arg |-> r.arg, ev |-> <<>>, truth |-> <<>>, n |-> 0, dirty |-> FALSE, deferred |-> FALSE, last |-> r]

DoSub(r) ==
  LET a == r.actor
      A == Adopted(st, r)
      old == IF IsL(r.site) /\ a \in DOMAIN lp THEN lp[a] ELSE NoSpan(r)
      changed == DataOf(A) # DataOf(st) \/ r.s.qlen # Len(st.queue)
      defer == ~old.dirty /\ (old.deferred \/ changed)
  IN /\ lp' = With(lp, a, [old EXCEPT !.ev = @ \o r.ev, !.truth = @ \o r.truth, !.n = @ + 1, !.deferred = defer, !.last = r])
     /\ st' = IF defer THEN st ELSE A
     /\ gh' = gh
     /\ pred' = pred
     /\ rep' = [rep EXCEPT !.steps = @ + 1, !.lsub = @ + 1]

\* the last record of a span: the specification's step of the span's site
DoLast(r) ==
  LET a == r.actor
      p == IF a \in DOMAIN lp THEN lp[a] ELSE [NoSpan(r) EXCEPT !.dirty = TRUE]
      r2 == [r EXCEPT !.site = p.site, !.arg = p.arg, !.ev = p.ev \o r.ev, !.truth = p.truth \o r.truth]
  IN /\ DoStepK(r2, ~p.dirty, TRUE)
     /\ lp' = [x \in DOMAIN lp \ {a} |-> lp[x]]

DoStep(r) ==
  IF r.actor # "env" /\ IsL(r.next) THEN DoSub(r)
  ELSE IF r.actor # "env" /\ IsL(r.site) THEN DoLast(r)
  ELSE DoStepK(r, TRUE, FALSE) /\ UNCHANGED lp

\* spans of actors other than the one of the next record that hold deferred changes
ToFlush(r) == {x \in DOMAIN lp : lp[x].deferred /\ (r.t # "step" \/ x # r.actor)}

\* adopt the deferred changes of one such span before the record of another thread is looked at (no record is consumed)
Flush(r) ==
  LET x == CHOOSE y \in ToFlush(r) : TRUE IN
  /\ st' = Adopted(st, lp[x].last)
  /\ lp' = [lp EXCEPT ![x].deferred = FALSE, ![x].dirty = TRUE]
  /\ gh' = [gh EXCEPT !.desync = @ \cup {x}]
  /\ UNCHANGED <<l, pred, rep>>

Next ==
  /\ l <= Len(Rec)
  /\ LET r == Rec[l] IN
       IF r.t # "reset" /\ ToFlush(r) # {} THEN Flush(r)
       ELSE /\ l' = l + 1
            /\ CASE r.t = "reset" -> DoReset(r)
                 [] r.t = "step" -> DoStep(r)
                 [] r.t = "end" /\ r.site \in {"E_End", "E_Stuck"} ->
                      LET vs == IF st.cfg.max >= Huge THEN <<>> ELSE JudgeEnd(Adopted(st, r), gh, r.site = "E_Stuck")
                      IN /\ UNCHANGED <<st, gh, pred, lp>>
                         /\ rep' = [rep EXCEPT !.nverd = @ + Len(vs), !.verdicts = Merge(@, vs, r.run, r.i)]
                 [] OTHER -> UNCHANGED <<st, gh, rep, pred, lp>>

Spec == Init /\ [][Next]_vars

Finished == l = Len(Rec) + 1

\* POSTCONDITION: the whole trace was consumed; print the report for the orchestrator
Accepted ==
  LET ok == TLCGet("stats").diameter - 1 >= Len(Rec)   \* (one state per record, plus the Flush steps of lock-grain traces)
  IN IF ok THEN TRUE ELSE Print(<<"TRACE-NOT-CONSUMED", TLCGet("stats").diameter - 1, Len(Rec)>>, FALSE)

ReportInv == Finished => PrintT(<<"REPORT", ToJson(rep)>>)
=============================================================================
