------------------------------- MODULE MC_AckU -------------------------------
(* done() against polling tasks that poll ANY number of times with any waker of a finite set, at the grain of the individual
   accesses: the state space is finite (done() runs once, so every wake counter stays below 2), hence TLC covers every
   number of polls and every change of waker, not only the bounded programs of MC_Ack_inst. Safety only. *)
EXTENDS Ack

CONSTANTS Pollers,   \* e.g. {"c0", "c1"}
          Wakers,    \* e.g. {1, 2}
          Final      \* status passed to done()

VARIABLES st, gh, bad
vars == <<st, gh, bad>>

Actors == Pollers \cup {"worker"}

Init == /\ st = AInit(Actors, Final)
        /\ gh = AGhostInit
        /\ bad = {}

Step(a) ==
  /\ AEnabled(st, a)
  /\ LET site == st.pc[a] IN
     \E w \in (IF a \in Pollers /\ site = "A_Poll" THEN Wakers ELSE {0}) :
       LET inp == [w |-> w, more |-> a \in Pollers]      \* a poller always comes back for another poll
           E == AEff(st, a, inp)
           returned == a \in Pollers /\ site \in {"P_Flag", "P_Status"} /\ E.st.pc[a] \in {"A_Poll", "END"}
           vs == AJudge(st, a, E.st, E.ret, returned, gh)
       IN /\ st' = E.st
          /\ gh' = AGhostNext(gh, st, a, E.st, E.ret)
          /\ bad' = bad \cup {vs[i].what : i \in DOMAIN vs}

Next == \E a \in Actors : Step(a)
Spec == Init /\ [][Next]_vars

NoViolation == bad = {}
LockDiscipline == st.lock # "" => st.pc[st.lock] \in {"P_Flag", "P_Status"}
FlagImpliesStatus == st.flag => st.status = st.final
WakesBounded == \A w \in DOMAIN st.wakes : st.wakes[w] <= 1
FixOff == FALSE
=============================================================================
