---------------------------- MODULE MC_LocksTrace ----------------------------
(* Locks.tla over the programs extracted from the real code (JSON file named by the environment variable LOCKS) *)
EXTENDS Locks, Json, IOUtils
Raw == JsonDeserialize(IOEnv.LOCKS)
Extracted == [i \in DOMAIN Raw.programs |-> [role |-> Raw.programs[i].role, ops |-> Raw.programs[i].ops]]
=============================================================================
