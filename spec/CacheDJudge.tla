---------------------------- MODULE CacheDJudge ----------------------------
(***************************************************************************)
(* The properties C01..C18 of /verif/properties.jsonl as judges of single  *)
(* steps: Judge(S, a, site, inp, S2, o, G) is the sequence of verdicts for *)
(* the step in which actor a, parked at site, moved the system from S to   *)
(* S2 with observable outcome o (next site, operation, result, events),    *)
(* given the ghost (history) record G.  The model checker evaluates the    *)
(* judges on the specification's own steps, the trace checker on the       *)
(* recorded steps of the implementation.                                   *)
(*                                                                         *)
(* Judges are STATEMENT-LEVEL: they demand what the property's sentence    *)
(* demands and nothing else (the instant now = expiry, the victim among    *)
(* equally cold keys, derived weights and stale index entries are open).   *)
(* A verdict is "violation" or, when the history carries the signature of  *)
(* a recorded defect (known_findings.json), "known".                       *)
(***************************************************************************)
EXTENDS CacheD

V(prop, kind, finding, what) == [prop |-> prop, kind |-> kind, finding |-> finding, what |-> what]

Get(f, x, d) == IF x \in DOMAIN f THEN f[x] ELSE d
SeqToSet(s) == {s[i] : i \in DOMAIN s}
IsWriteOp(op) == op.op \in {"put", "pou", "del"}
IsReadOp(op) == op.op \in {"get", "mget"}
ReadKeys(op) == IF op.op = "get" THEN {op.k} ELSE SeqToSet(op.ks)
ReadKeySeq(op) == IF op.op = "get" THEN <<op.k>> ELSE op.ks

NoW == [opid |-> 0, actor |-> "", kind |-> "none", k |-> -1, v |-> -1, alone |-> FALSE, applied |-> FALSE,
        inplace |-> FALSE, dl |-> NoExp, ack |-> 0, returned |-> FALSE, expw |-> -1, tgt |-> 0, pd |-> FALSE]

GhostInit(S) ==
  [lookups |-> 0, refusals |-> 0, applied |-> 0, credit |-> EmptyFn,
   shutSeen |-> FALSE, shutDone |-> FALSE, pressure |-> FALSE,
   ops |-> EmptyFn,      \* write operations in flight: opid -> NoW-shaped record
   ackop |-> EmptyFn,    \* acknowledgement number -> opid
   ws |-> EmptyFn,       \* key -> sequence of [val, opid] : applied writes not yet superseded by a completed later one
   pend |-> EmptyFn,     \* key -> set of [val, opid] : writes that began and are not applied yet
   rdDead |-> EmptyFn,   \* reading actor -> [key -> the values that were dead (see deadv) when the read began]
   rd |-> EmptyFn,       \* reading actor -> [key -> set of values it may return]
   e3 |-> EmptyFn,       \* key -> [mode, val, dl] : what a sequential client may rely on (C03)
   rd3 |-> EmptyFn,      \* reading actor -> [key -> [ok, val, dl]]
   obs |-> EmptyFn,      \* reading actor -> sequence of facts about the entry at the instant of each key lookup
   delv |-> EmptyFn,     \* key -> values hidden by a delete that has returned
   lastw |-> EmptyFn,    \* key -> [actor, kind, opid] of the write that began last
   stale |-> EmptyFn,    \* id -> "D13"/"D14": its TTL index entry was written with an expiry the entry did not have at that moment
   taintK |-> EmptyFn,   \* key -> id of the recorded by-key / store-index race that hit it (D11, D12, D13)
   pairs |-> EmptyFn,    \* key -> [put, del, putDone, delDone, valid]: `put k` then `delete k` by one thread, nobody else writing k (C11)
   delold |-> EmptyFn,   \* delete operation -> values of its key that were written before the delete was issued (same thread, or by calls that had returned)
   deadv |-> EmptyFn,    \* key -> values that an acknowledged delete has removed for good (C11: they were submitted before it)
   acc |-> EmptyFn,      \* key hash -> accesses delivered to the sketch in the current ageing window (system-level C14)
   accTotal |-> 0,       \* recorded accesses in the current window (TinyLFU::total_increments)
   evw |-> EmptyFn,      \* evicting actor -> id of the store entry its key had when it removed the key id from key_weights
   badw |-> {},          \* key ids for which a weight update larger than the one the call implies was sent (no D2 credit for those)
   delAcc |-> FALSE,     \* a delete was acknowledged as accepted in this run
   mine |-> EmptyFn,     \* actor -> the expiry the entry had right after that actor's own last store write (its in-place upsert, the worker's put)
   loose |-> FALSE,      \* (lock-grain traces) a span with several effects was seen: only the state-level judges are evaluated from here on
   desync |-> {},        \* actors whose model-inferred locals cannot be trusted until they start their next command / operation
   smp |-> {},           \* ids in the sample the code logged last (entries kept from it carry the estimate they were sampled with)
   adm |-> [id |-> 0, w |-> 0],   \* the put the worker is admitting (set at A_Space, from the command it actually received)
   absent |-> {},        \* keys whose last writes are `put k ; delete k` by one thread: absent once everything is applied (C11)
   dead |-> {}]          \* background threads that died

WritesOn(G, k) == {id \in DOMAIN G.ops : G.ops[id].k = k /\ G.ops[id].kind # "none"}
MayReturn(G, k) == {w.val : w \in SeqToSet(Get(G.ws, k, <<>>))} \cup {w.val : w \in Get(G.pend, k, {})}

UpsertInFlightOn(S, id) ==
  \E c \in DOMAIN S.pc : IsCaller(c) /\ S.lc[c].id = id
      /\ S.pc[c] \in {"C_PouWeightOf", "T_Put", "T_Del", "T_UpdRemove", "T_UpdInsert"}

\* one recorded access of hash h in the sketch: count it; the window restarts when the configured number is reached
RECURSIVE SketchFeed(_, _, _)
SketchFeed(G, hs, resetAt) ==
  IF hs = <<>> THEN G
  ELSE LET h == Head(hs)
           t == G.accTotal + 1
           G1 == IF t >= resetAt THEN [G EXCEPT !.acc = EmptyFn, !.accTotal = 0]
                 ELSE [G EXCEPT !.acc = With(@, h, Get(@, h, 0) + 1), !.accTotal = t]
       IN SketchFeed(G1, Tail(hs), resetAt)

HashOf(cfg, k) == IF cfg.hash = "const" THEN 7 ELSE k
\* the frequency profile installed before the run (verif_record_access: one batch per key)
RECURSIVE GhostPreload(_, _, _)
GhostPreload(G, freq, cfg) ==
  IF freq = <<>> THEN G
  ELSE GhostPreload(SketchFeed(G, [i \in 1..Head(freq)[2] |-> HashOf(cfg, Head(freq)[1])], cfg.counters), Tail(freq), cfg)

-----------------------------------------------------------------------------
(* ghost update *)

\* a write to key k (value v, by operation opid) takes effect now
ApplyWrite(G, k, v, opid) ==
  [G EXCEPT !.ws = With(@, k, Append(Get(@, k, <<>>), [val |-> v, opid |-> opid])),
            !.pend = With(@, k, {w \in Get(@, k, {}) : w.opid # opid}),
            !.ops = IF opid \in DOMAIN @ THEN [@ EXCEPT ![opid].applied = TRUE] ELSE @]

\* the write operation opid on key k is complete: everything applied before it is superseded
CompleteWrite(G, k, opid) ==
  LET s == Get(G.ws, k, <<>>)
      pos == {i \in DOMAIN s : s[i].opid = opid}
      cut == IF pos = {} THEN 1 ELSE CHOOSE i \in pos : \A j \in pos : i >= j
      s2 == IF pos = {} THEN s ELSE SubSeq(s, cut, Len(s))
      cutVals == IF pos = {} THEN {} ELSE {s[i].val : i \in 1..(cut - 1)} \ {NoVal}
      isDel == opid \in DOMAIN G.ops /\ G.ops[opid].kind = "del"
  IN [G EXCEPT !.ws = With(@, k, s2),
               !.pend = With(@, k, {w \in Get(@, k, {}) : w.opid # opid}),
               !.delv = IF isDel THEN With(@, k, Get(@, k, {}) \cup cutVals) ELSE @]

\* C03: what the finished operation w (final status st) lets a sequential client expect
Expect3(G, S2, w, st) ==
  LET k == w.k old == Get(G.e3, k, [mode |-> "none", val |-> NoVal, dl |-> NoExp, src |-> "none"]) IN
  IF ~w.alone THEN With(G.e3, k, [mode |-> "unk", val |-> NoVal, dl |-> NoExp, src |-> "none"])
  ELSE CASE w.kind = "del" -> With(G.e3, k, [mode |-> "none", val |-> NoVal, dl |-> NoExp, src |-> "del"])
         [] st = StAccepted /\ w.inplace ->
              IF w.v >= 0 THEN With(G.e3, k, [mode |-> "val", val |-> w.v, dl |-> w.dl, src |-> "pou"])
              ELSE IF old.mode = "val" THEN With(G.e3, k, [old EXCEPT !.dl = w.dl, !.src = "pou"])
              ELSE With(G.e3, k, [mode |-> "unk", val |-> NoVal, dl |-> NoExp, src |-> "none"])
         [] st = StAccepted -> With(G.e3, k, [mode |-> "val", val |-> w.v, dl |-> w.dl, src |-> w.kind])
         [] st = StRejExists -> G.e3
         [] OTHER -> With(G.e3, k, [mode |-> "unk", val |-> NoVal, dl |-> NoExp, src |-> "none"])

FinishWrite(G, S2, opid, st) ==
  IF opid \notin DOMAIN G.ops THEN G
  ELSE LET w == G.ops[opid]
           G1 == CompleteWrite(G, w.k, opid)
       IN [G1 EXCEPT !.e3 = Expect3(G, S2, w, st),
                     !.deadv = IF w.kind = "del" /\ opid \in DOMAIN G.delold /\ st \in {StAccepted, StRejNoKey}
                               THEN With(@, w.k, Get(@, w.k, {}) \cup G.delold[opid]) ELSE @,
                     !.delold = IF opid \in DOMAIN @ THEN Without(@, opid) ELSE @,
                     !.pairs = [k \in DOMAIN @ |-> IF @[k].put = opid THEN [@[k] EXCEPT !.putDone = TRUE]
                                                    ELSE IF @[k].del = opid THEN [@[k] EXCEPT !.delDone = TRUE] ELSE @[k]],
                     !.ops = Without(@, opid),
                     !.refusals = IF w.kind \in {"put", "pou"} /\ ~w.inplace /\ st \in {StRejNoSpace, StRejTooHeavy} THEN @ + 1 ELSE @]

\* acknowledgements that became done in this step
NewlyDone(S, S2) == {n \in DOMAIN S2.ack : S2.ack[n].done /\ ~(n \in DOMAIN S.ack /\ S.ack[n].done)}

RECURSIVE FinishAll(_, _, _)
FinishAll(G, S2, acks) ==
  IF acks = {} THEN G
  ELSE LET n == CHOOSE x \in acks : \A y \in acks : x <= y
           G1 == IF n \in DOMAIN G.ackop THEN FinishWrite(G, S2, G.ackop[n], S2.ack[n].st) ELSE G
       IN FinishAll(G1, S2, acks \ {n})

GhostBegin(G, S, a, op) ==
  IF IsWriteOp(op)
  THEN LET k == op.k
           others == WritesOn(G, k)
           v == IF op.op = "del" THEN NoVal ELSE op.v
           lw == Get(G.lastw, k, [actor |-> "", kind |-> "none", opid |-> 0])
           w == [NoW EXCEPT !.opid = op.id, !.actor = a, !.kind = op.op, !.k = k, !.v = v, !.alone = others = {},
                            !.pd = op.op = "del" /\ lw.actor = a /\ lw.kind = "put"]
       IN [G EXCEPT !.ops = [id \in DOMAIN @ \cup {op.id} |->
                               IF id = op.id THEN w
                               ELSE IF @[id].k = k THEN [@[id] EXCEPT !.alone = FALSE, !.pd = FALSE] ELSE @[id]],
                    !.pend = IF op.op = "del" \/ v < 0 THEN @ ELSE With(@, k, Get(@, k, {}) \cup {[val |-> v, opid |-> op.id]}),
                    !.rd = [r \in DOMAIN @ |-> IF k \in DOMAIN @[r] /\ v >= 0 THEN [@[r] EXCEPT ![k] = @ \cup {v}] ELSE @[r]],
                    !.rd3 = [r \in DOMAIN @ |-> IF k \in DOMAIN @[r] THEN [@[r] EXCEPT ![k].ok = FALSE] ELSE @[r]],
                    !.absent = IF op.op = "del" /\ lw.actor = a /\ lw.kind = "put" /\ \A id \in others : G.ops[id].actor = a
                               THEN @ \cup {k} ELSE @ \ {k},
                    !.pairs = IF op.op = "del" /\ lw.actor = a /\ lw.kind = "put" /\ \A id \in others : G.ops[id].actor = a
                              THEN With(@, k, [put |-> lw.opid, del |-> op.id, putDone |-> lw.opid \notin DOMAIN G.ops, delDone |-> FALSE, valid |-> TRUE])
                              ELSE IF k \in DOMAIN @ THEN [@ EXCEPT ![k].valid = FALSE] ELSE @,
                    !.delold = IF op.op = "del"
                               THEN With(@, op.id, (IF Present(S, k) THEN {S.store[k].val} ELSE {})
                                                   \cup {G.ops[id].v : id \in {x \in others : G.ops[x].v >= 0 /\ (G.ops[x].actor = a \/ G.ops[x].returned)}})
                               ELSE @,
                    !.lastw = With(@, k, [actor |-> a, kind |-> op.op, opid |-> op.id])]
  ELSE IF IsReadOp(op)
  THEN LET ks == ReadKeys(op) IN
       [G EXCEPT !.rd = With(@, a, [k \in ks |-> MayReturn(G, k)]),
                 !.rdDead = With(@, a, [k \in ks |-> Get(G.deadv, k, {})]),
                 !.obs = With(@, a, <<>>),
                 !.rd3 = With(@, a, [k \in ks |->
                            LET e == Get(G.e3, k, [mode |-> "none", val |-> NoVal, dl |-> NoExp, src |-> "none"])
                            IN [ok |-> e.mode = "val" /\ WritesOn(G, k) = {} /\ ~G.pressure,
                                val |-> e.val, dl |-> e.dl, src |-> e.src]])]
  ELSE G

\* ids that are charged although no entry holds them (nothing of the kind exists while the worker is at its space check:
\* the worker itself is the only thread that charges before it stores or removes before it releases)
LeakedIds(S) == DOMAIN S.kw \ {S.store[k].id : k \in DOMAIN S.store}
\* the worker finds no room for its put, but would find it if only held keys were charged
PhantomPressure(S, a) ==
  /\ a = "worker" /\ S.pc[a] = "A_Space" /\ LeakedIds(S) # {}
  /\ ~S.shut                                   \* (shutdown clears the store before the weights: nothing to judge then)
  /\ S.lc[a].w <= S.cfg.max
  /\ S.cfg.max - (S.used - SumSet([id \in LeakedIds(S) |-> S.kw[id].w], LeakedIds(S))) >= S.lc[a].w

GhostNext(G, S, a, site, inp, S2, o) ==
  LET L == S.lc[a]
      G0 == [G EXCEPT !.lookups = IF site = "C_Get" THEN @ + 1 ELSE @,
                      !.badw = IF IsCaller(a) /\ site = "C_Send" /\ o.sync /\ o.op.op = "pou" /\ ~HasW(o.op) /\ L.cmd.kind = "upd"
                                  /\ \E i \in DOMAIN o.ev : o.ev[i].e = "send" /\ o.ev[i].f[2] = 4 /\ o.ev[i].f[4] > L.cmd.w
                               THEN @ \cup {L.cmd.id} ELSE @,
                      !.delAcc = @ \/ \E n \in NewlyDone(S, S2) : S2.ack[n].st = StAccepted /\ n \in DOMAIN G.ackop
                                                                     /\ G.ackop[n] \in DOMAIN G.ops /\ G.ops[G.ackop[n]].kind = "del",
                      !.desync = LET base == IF site \in {"W_Recv", "C_Idle", "S_Tick", "R_Recv"} THEN @ \ {a} ELSE @
                                 IN IF o.sync /\ o.agree THEN base ELSE base \cup {a},   \* (takes effect for the FOLLOWING steps)
                      !.adm = IF site = "A_Space" /\ a = "worker" THEN [id |-> L.id, w |-> L.w] ELSE @,
                      !.smp = IF \E i \in DOMAIN o.ev : o.ev[i].e \in {"sample", "refill"}
                              THEN LET j == CHOOSE i \in DOMAIN o.ev : o.ev[i].e \in {"sample", "refill"} /\ \A k \in DOMAIN o.ev : o.ev[k].e \in {"sample", "refill"} => i >= k
                                   IN {o.ev[j].f[x] : x \in {y \in 3..Len(o.ev[j].f) : (y - 3) % 3 = 0}}
                              ELSE IF site = "A_Space" THEN {} ELSE @,
                      !.shutSeen = @ \/ S2.shut,
                      !.shutDone = @ \/ (IsCaller(a) /\ o.next = "C_Idle" /\ o.op.op = "shutdown"),
                      \* memory pressure: an eviction was needed although only held keys are charged (see J_C03p)
                      !.pressure = @ \/ ((o.next = "A_Sample" \/ site = "A_Sample") /\ ~PhantomPressure(S, a)),
                      !.applied = IF site = "R_Apply" THEN @ + Len(L.batch) ELSE @,
                      !.dead = IF o.next = "DEAD" THEN @ \cup {a} ELSE @]
      \* operation begin
      G1 == IF site = "C_Idle" /\ IsCaller(a) THEN GhostBegin(G0, S, a, o.op) ELSE G0
      opid == IF IsCaller(a) THEN o.op.id ELSE L.cmd.ack
      \* application points of writes
      G2 == CASE site = "W_StorePut" /\ L.cmd.ack \in DOMAIN G1.ackop ->
                   LET id == G1.ackop[L.cmd.ack]
                       Ga == ApplyWrite(G1, L.cmd.key, L.cmd.val, id)
                   IN [Ga EXCEPT !.ops = IF id \in DOMAIN @
                                         THEN [@ EXCEPT ![id].dl = IF L.cmd.key \in DOMAIN S2.store THEN S2.store[L.cmd.key].exp ELSE NoExp]
                                         ELSE @]
             [] site = "C_PouUpdate" /\ o.next = "C_PouWeightOf" ->
                   LET Ga == IF HasV(o.op) THEN ApplyWrite(G1, o.op.k, o.op.v, o.op.id) ELSE G1
                   IN [Ga EXCEPT !.ops = IF o.op.id \in DOMAIN @
                                         THEN [@ EXCEPT ![o.op.id].inplace = TRUE, ![o.op.id].applied = TRUE,
                                                        ![o.op.id].tgt = IF o.op.k \in DOMAIN S2.store THEN S2.store[o.op.k].id ELSE 0,
                                                        ![o.op.id].dl = IF o.op.k \in DOMAIN S2.store THEN S2.store[o.op.k].exp ELSE NoExp]
                                         ELSE @]
             [] site = "C_DelMark" /\ Present(S, o.op.k) -> ApplyWrite(G1, o.op.k, NoVal, o.op.id)
             [] site = "W_DelStore" /\ L.cmd.ack \in DOMAIN G1.ackop /\ Present(S, L.key) ->
                   LET id == G1.ackop[L.cmd.ack]
                   IN IF id \in DOMAIN G1.ops /\ ~G1.ops[id].applied THEN ApplyWrite(G1, L.key, NoVal, id) ELSE G1
             [] OTHER -> G1
      \* acknowledgement handed out: remember which operation it belongs to
      G3 == IF IsCaller(a) /\ o.next = "C_Idle" /\ o.ret.ack > 0 /\ IsWriteOp(o.op)
            THEN [G2 EXCEPT !.ackop = With(@, o.ret.ack, o.op.id)] ELSE G2
      G3b == IF IsCaller(a) /\ site = "C_Send" /\ IsWriteOp(o.op) /\ S2.nextAck > S.nextAck
             THEN [G3 EXCEPT !.ackop = With(@, S.nextAck, o.op.id)] ELSE G3
      \* completion: by acknowledgement, or on return for calls that failed
      G4 == FinishAll(G3b, S2, NewlyDone(S, S2))
      G5 == IF IsCaller(a) /\ o.next = "C_Idle" /\ IsWriteOp(o.op) /\ (o.ret.st = StErr \/ o.ret.panic)
            THEN FinishWrite(G4, S2, o.op.id, o.ret.st) ELSE G4
      \* the call has returned (its command, if any, is in the queue)
      G5b == IF IsCaller(a) /\ o.next = "C_Idle" /\ IsWriteOp(o.op) /\ o.op.id \in DOMAIN G5.ops
             THEN [G5 EXCEPT !.ops[o.op.id].returned = TRUE] ELSE G5
      \* a delete hides the key as soon as the call has returned
      G6 == IF IsCaller(a) /\ o.next = "C_Idle" /\ o.op.op = "del" /\ o.op.id \in DOMAIN G5b.ops
            THEN CompleteWrite(G5b, o.op.k, o.op.id) ELSE G5b
      \* an in-place upsert is visible as soon as the call has returned
      G7 == IF IsCaller(a) /\ o.next = "C_Idle" /\ o.op.op = "pou" /\ o.op.id \in DOMAIN G6.ops /\ G6.ops[o.op.id].inplace
            THEN CompleteWrite(G6, o.op.k, o.op.id) ELSE G6
      \* reads end
      G8 == IF IsCaller(a) /\ o.next = "C_Idle" /\ IsReadOp(o.op)
            THEN [G7 EXCEPT !.rd = IF a \in DOMAIN @ THEN Without(@, a) ELSE @,
                            !.rdDead = IF a \in DOMAIN @ THEN Without(@, a) ELSE @,
                            !.rd3 = IF a \in DOMAIN @ THEN Without(@, a) ELSE @,
                            !.obs = IF a \in DOMAIN @ THEN Without(@, a) ELSE @] ELSE G7
      \* D2: running sum (clamped at 0) of weight updates applied to charged ids
      G9 == IF site = "K_Update"
            THEN LET changed == {id \in (DOMAIN S.kw \cap DOMAIN S2.kw) \ G.badw : S.kw[id].w # S2.kw[id].w}   \* (observed, not predicted)
                 IN [G8 EXCEPT !.credit = [id \in DOMAIN @ \cup changed |->
                                             IF id \in changed THEN Max2(0, Get(@, id, 0) + (S2.kw[id].w - S.kw[id].w)) ELSE @[id]]]
            ELSE G8
      G10 == IF site = "K_DelUsed"
             THEN \* the released id: the one that is charged nowhere any more and whose weight left the total in this step
                  \* (another thread may be between taking a credited id out of key_weights and releasing its weight: that id stays)
                  LET rel == {o.ev[i].f[1] : i \in {j \in DOMAIN o.ev : o.ev[j].e = "released"}} IN
                  [G9 EXCEPT !.credit = Restrict(@, {id \in DOMAIN @ : id \in DOMAIN S2.kw
                                                      \/ (IF rel # {} THEN id \notin rel ELSE id # L.vic.id /\ S2.used = S.used)})]
             ELSE IF site = "C_ShutClearPolicy" THEN [G9 EXCEPT !.credit = EmptyFn] ELSE G9
      \* what the entry looked like right after the actor's own store write: an index update that does not match the entry is only
      \* explained by the recorded races D13 / D14 if ANOTHER write changed the entry since
      G10m == IF site = "C_PouUpdate" /\ IsCaller(a) /\ Present(S2, o.op.k)
              THEN [G10 EXCEPT !.mine = With(@, a, [k |-> o.op.k, exp |-> S2.store[o.op.k].exp])]
              ELSE IF site = "W_StorePut" /\ a = "worker" /\ Present(S2, L.cmd.key)
              THEN [G10 EXCEPT !.mine = With(@, a, [k |-> L.cmd.key, exp |-> S2.store[L.cmd.key].exp])]
              ELSE G10
      Interfered(k) == LET m == Get(G.mine, a, [k |-> -1, exp |-> NoExp]) IN m.k # k \/ ~Present(S, k) \/ S.store[k].exp # m.exp
      \* D13: the worker registers an expiry in the index that the entry no longer has
      \* D13 / D14: an index update (the worker's after its store write, or a caller's after its in-place update) that no longer
      \* matches the entry: another upsert of the key ran in between
      G11 == IF site = "T_Put" /\ a = "worker" /\ (~Present(S, L.cmd.key) \/ S.store[L.cmd.key].id # L.id \/ S.store[L.cmd.key].exp # L.exp)
                /\ Interfered(L.cmd.key)
             THEN [G10m EXCEPT !.stale = With(@, L.id, "D13")]
             ELSE IF IsCaller(a) /\ site \in {"T_Put", "T_UpdInsert", "T_Del", "T_UpdRemove"} /\ Present(S, L.op.k) /\ S.store[L.op.k].id = L.id
                     /\ LET written == CASE site = "T_Put" -> L.exp [] site = "T_UpdInsert" -> L.newexp [] OTHER -> NoExp
                         IN ((site \in {"T_Put", "T_UpdInsert"} /\ S.store[L.op.k].exp # written)
                             \/ (site = "T_Del" /\ S.store[L.op.k].exp # NoExp)
                             \/ (site = "T_UpdRemove" /\ S.store[L.op.k].exp # L.newexp))
                            /\ Interfered(L.op.k)
             THEN [G10m EXCEPT !.stale = With(@, L.id, "D14")] ELSE G10m
      \* the facts at the instant of a key lookup (the read itself is atomic)
      G12 == IF site = "C_Get" /\ IsCaller(a) /\ a \in DOMAIN G11.obs /\ Len(G11.obs[a]) < Len(ReadKeySeq(o.op))
             THEN LET k == ReadKeySeq(o.op)[Len(G11.obs[a]) + 1]   \* (the position comes from the observed lookups, not from the model's locals)
                      pres == Present(S, k)
                      e == IF pres THEN S.store[k] ELSE [val |-> NoVal, id |-> 0, exp |-> NoExp, soft |-> FALSE]
                      x == Get(Get(G.rd3, a, EmptyFn), k, [ok |-> FALSE, val |-> NoVal, dl |-> NoExp, src |-> "none"])
                      due == x.ok /\ ~G.pressure /\ ~S.shut /\ (x.dl = NoExp \/ S.now < x.dl)
                  IN [G11 EXCEPT !.obs[a] = Append(@, [k |-> k, present |-> pres, val |-> e.val, exp |-> e.exp, soft |-> e.soft,
                                                       now |-> S.now, shut |-> S.shut, due |-> due, want |-> x.val, src |-> x.src,
                                                       tainted |-> Get(G.taintK, k, "")])]
             ELSE G11
      \* D11 / D12 / D13: a by-key removal that hits an entry it was not meant for taints the key
      \* the consumer applies a batch of access records to the sketch
      G12b == IF site = "R_Apply" /\ \E i \in DOMAIN o.ev : o.ev[i].e = "apply"
              THEN SketchFeed(G12, o.ev[CHOOSE i \in DOMAIN o.ev : o.ev[i].e = "apply"].f, S.cfg.counters)
              ELSE IF site = "C_ShutClearPolicy" THEN [G12 EXCEPT !.acc = EmptyFn, !.accTotal = 0] ELSE G12
      \* the window of an eviction: between key_weights.remove(id) and the by-key removal of the store entry
      G12c == IF site = "K_DelKw" /\ L.mode # "del"
              THEN LET id == IF L.mode = "evict" THEN L.vic.id ELSE L.id
                       key == IF id \in DOMAIN S.kw THEN S.kw[id].key ELSE -1
                   IN [G12b EXCEPT !.evw = With(@, a, IF key \in DOMAIN S.store THEN S.store[key].id ELSE 0)]
              ELSE G12b
      G13 == IF site = "K_DelUsed" /\ L.mode # "del" /\ Present(S, L.key)
                /\ LET e == S.store[L.key] IN
                     (e.id # L.vic.id /\ Get(G.evw, a, 0) = L.vic.id)
                     \/ (a = "sweeper" /\ (e.exp = NoExp \/ e.exp > Min2(L.t, S.now)) /\ (UpsertInFlightOn(S, e.id) \/ e.id \in DOMAIN G.stale))
             THEN [G12c EXCEPT !.taintK = With(@, L.key,
                        LET e == S.store[L.key] IN
                        IF e.id # L.vic.id THEN "D11" ELSE IF UpsertInFlightOn(S, e.id) THEN "D12" ELSE G.stale[e.id])] ELSE G12c
  IN G13

\* the lookup facts of reader a including the lookup made in the current C_Get step
GhostObs(G, S, a) ==
  LET L == S.lc[a] ks == ReadKeySeq(L.op) IN
  IF a \notin DOMAIN G.obs \/ Len(G.obs[a]) >= Len(ks) THEN Get(G.obs, a, <<>>)
  ELSE LET k == ks[Len(G.obs[a]) + 1]
           pres == Present(S, k)
           e == IF pres THEN S.store[k] ELSE [val |-> NoVal, id |-> 0, exp |-> NoExp, soft |-> FALSE]
           x == Get(Get(G.rd3, a, EmptyFn), k, [ok |-> FALSE, val |-> NoVal, dl |-> NoExp, src |-> "none"])
           due == x.ok /\ ~G.pressure /\ ~S.shut /\ (x.dl = NoExp \/ S.now < x.dl)
       IN Append(G.obs[a], [k |-> k, present |-> pres, val |-> e.val, exp |-> e.exp, soft |-> e.soft,
                            now |-> S.now, shut |-> S.shut, due |-> due, want |-> x.val, src |-> x.src, tainted |-> Get(G.taintK, k, "")])

\* the specification's locals of actor a describe what the code is really doing in this step
Sync(G, a, site, o) == o.sync /\ (a \notin G.desync \/ site \in {"W_Recv", "C_Idle", "S_Tick", "R_Recv"})

-----------------------------------------------------------------------------
(* C01: 0 <= total weight <= cache weight at every instant while running *)

SumCredit(G, S) == SumSet(G.credit, DOMAIN G.credit)

J_C01(S, a, site, inp, S2, o, G, G2) ==
  IF S2.shut \/ G.shutSeen THEN <<>>
  ELSE (IF S2.used < 0 THEN <<V("C01", "violation", "", "total weight used is negative")>> ELSE <<>>)
    \o (IF S2.used > S2.cfg.max
        THEN IF S2.used <= S2.cfg.max + SumCredit(G2, S2)
             THEN <<V("C01", "known", "D2", "weight-increasing upsert applied without a bound check")>>
             ELSE <<V("C01", "violation", "", "total weight used exceeds the cache weight")>>
        ELSE <<>>)
    \o (IF site = "K_AddUsed" /\ S2.used > S2.cfg.max /\ SumCredit(G2, S2) = 0
        THEN <<V("C01", "violation", "", "an accepted put left the total above the limit")>> ELSE <<>>)
    \* the total is the sum of the charged weights: when the running total has drifted below it, the bound on the total says nothing
    \o (IF Quiescent(S2) /\ G2.dead = {} /\ S2.used <= S2.cfg.max
           /\ SumSet([id \in DOMAIN S2.kw |-> S2.kw[id].w], DOMAIN S2.kw) > S2.cfg.max + SumCredit(G2, S2)
        THEN <<V("C01", "violation", "", "the charged weights add up to more than the cache weight while the total reported as used is below it")>> ELSE <<>>)

-----------------------------------------------------------------------------
(* C02 / C04a: a read returns only a value that may legitimately be current *)

J_C02(S, a, site, inp, S2, o, G, G2) ==
  IF ~(IsCaller(a) /\ o.next = "C_Idle" /\ IsReadOp(o.op) /\ a \in DOMAIN G.rd) THEN <<>>
  ELSE LET allowed == G.rd[a]
           keys == IF o.op.op = "get" THEN <<o.op.k>> ELSE o.op.ks
           vals == IF o.op.op = "get" THEN <<o.ret.v>> ELSE o.ret.vs
           bad == {i \in DOMAIN vals : i \in DOMAIN keys /\ vals[i] # NoVal
                                          /\ (vals[i] \notin Get(allowed, keys[i], {}) \/ vals[i] \in Get(Get(G.rdDead, a, EmptyFn), keys[i], {}))}
       IN IF bad = {} THEN <<>>
          ELSE LET i == CHOOSE x \in bad : TRUE
                   k == keys[i]
                   \* was the value ever written to this key and then hidden by a delete that returned?
                   byDelete == vals[i] \in Get(G.delv, k, {}) \/ vals[i] \in Get(Get(G.rdDead, a, EmptyFn), k, {})
               IN <<V(IF byDelete THEN "C04" ELSE "C02", "violation", "",
                      "a read returned a value that is not current for the key (stale, deleted, foreign or never written)")>>
                  \o (IF byDelete THEN <<V("C02", "violation", "", "a read returned a deleted value")>> ELSE <<>>)

-----------------------------------------------------------------------------
(* C03: without memory pressure an accepted key stays readable (sequential use of the key) *)

J_C03p(S, a, site, inp, S2, o, G, G2) ==
  IF site = "A_Space" /\ o.next = "A_Sample" /\ PhantomPressure(S, a) /\ Sync(G, a, site, o)
  THEN IF \E id \in LeakedIds(S) : S.kw[id].key \in DOMAIN G.taintK
       THEN <<V("C03", "known", G.taintK[S.kw[CHOOSE id \in LeakedIds(S) : S.kw[id].key \in DOMAIN G.taintK].key],
                "eviction under the weight of a key id leaked by a recorded store/index race")>>
       ELSE <<V("C03", "violation", "", "keys are evicted without memory pressure: the put fits once the weight of key ids that no entry holds any more is discounted")>>
  ELSE <<>>

ReadVals(o) == IF o.op.op = "get" THEN <<o.ret.v>> ELSE o.ret.vs

J_C03(S, a, site, inp, S2, o, G, G2) ==
  IF ~(IsCaller(a) /\ o.next = "C_Idle" /\ IsReadOp(o.op) /\ a \in DOMAIN G2.obs \cup DOMAIN G.obs) THEN <<>>
  ELSE LET facts == IF site = "C_Get" THEN GhostObs(G, S, a) ELSE Get(G.obs, a, <<>>)
           vals == ReadVals(o)
           bad == {i \in DOMAIN facts \cap DOMAIN vals : facts[i].due /\ vals[i] # facts[i].want}
           known == {i \in bad : facts[i].tainted # ""}
       IN (IF bad \ known # {}
           THEN <<V("C03", "violation", "", "an accepted key became unreadable (or changed) without memory pressure")>> ELSE <<>>)
          \o (IF \E i \in bad \ known : facts[i].src = "pou"
              THEN <<V("C08", "violation", "", "an upsert acknowledged as accepted was silently lost")>> ELSE <<>>)
          \o (IF \E i \in known : facts[i].src = "pou"
              THEN <<V("C08", "known", facts[CHOOSE i \in known : facts[i].src = "pou"].tainted, "accepted upsert lost through a recorded store/index race")>> ELSE <<>>)
          \o (IF known # {}
              THEN <<V("C03", "known", facts[CHOOSE i \in known : TRUE].tainted, "accepted key lost through a recorded store/index race")>> ELSE <<>>)

-----------------------------------------------------------------------------
(* C04b/c: the acknowledgement of a delete *)

J_C04(S, a, site, inp, S2, o, G, G2) ==
  LET L == S.lc[a] IN
  IF a = "worker" /\ Sync(G, a, site, o) /\ L.cmd.kind = "del" /\ o.next = "W_Recv" /\ site # "W_Recv" /\ L.cmd.ack \in DOMAIN S2.ack /\ S2.ack[L.cmd.ack].done
  THEN LET st == S2.ack[L.cmd.ack].st k == L.cmd.key IN
       (IF st = StAccepted /\ Present(S2, k) /\ ~S2.shut
        THEN <<V("C04", "violation", "", "delete acknowledged as accepted but the key is still in the store")>> ELSE <<>>)
       \o (IF st = StAccepted /\ L.id \in DOMAIN S2.kw /\ ~S2.shut
           THEN <<V("C04", "violation", "", "delete acknowledged as accepted but the weight is still charged")>> ELSE <<>>)
       \o (IF site = "W_DelStore" /\ ~Present(S, k) /\ st # StRejNoKey
           THEN <<V("C04", "violation", "", "delete of an absent key not rejected with KeyDoesNotExist")>> ELSE <<>>)
       \o (IF site = "W_DelStore" /\ ~Present(S, k) /\ (S2.store # S.store \/ S2.kw # S.kw \/ S2.used # S.used)
           THEN <<V("C04", "violation", "", "delete of an absent key changed the cache")>> ELSE <<>>)
       \o (IF st = StRejNoKey /\ site = "W_DelStore" /\ Present(S, k)
           THEN <<V("C04", "violation", "", "delete of a present key rejected")>> ELSE <<>>)
  ELSE <<>>

-----------------------------------------------------------------------------
(* C05: at quiescence the charged ids are exactly the held entries and the total is their sum *)

HeldIds(S) == {S.store[k].id : k \in DOMAIN S.store}

J_C05(S, a, site, inp, S2, o, G, G2) ==
  IF ~Quiescent(S2) \/ S2.shut \/ G.shutSeen \/ G2.dead # {} THEN <<>>
  ELSE LET leaked == DOMAIN S2.kw \ HeldIds(S2)
           uncharged == HeldIds(S2) \ DOMAIN S2.kw
           sum == SumSet([id \in DOMAIN S2.kw |-> S2.kw[id].w], DOMAIN S2.kw)
           tainted == \E id \in leaked : S2.kw[id].key \in DOMAIN G2.taintK
                      \/ \E k \in DOMAIN S2.store : S2.store[k].id \in uncharged /\ k \in DOMAIN G2.taintK
       IN IF leaked = {} /\ uncharged = {} /\ sum = S2.used THEN <<>>
          ELSE IF tainted THEN <<V("C05", "known", "D11", "by-key removal hit another incarnation")>>
          ELSE <<V("C05", "violation", "",
                   IF leaked # {} THEN "weight stays charged for a key id that is gone"
                   ELSE IF uncharged # {} THEN "a held key is not charged"
                   ELSE "total weight differs from the sum of the charged weights")>>

-----------------------------------------------------------------------------
(* C06: admission *)

EvTriples(f, from) == {[id |-> f[i], est |-> f[i + 1], w |-> f[i + 2]] :
                         i \in {j \in from..Len(f) : (j - from) % 3 = 0 /\ j + 2 <= Len(f)}}

J_C06(S, a, site, inp, S2, o, G, G2) ==
  IF a # "worker" \/ ~Sync(G, a, site, o) THEN <<>>
  ELSE LET L == S.lc[a] IN
    (IF site = "A_Space" /\ L.w > S.cfg.max /\ ~(o.next = "W_Recv" /\ L.cmd.ack \in DOMAIN S2.ack /\ S2.ack[L.cmd.ack].st = StRejTooHeavy
                                                 /\ S2.store = S.store /\ S2.kw = S.kw /\ S2.used = S.used)
     THEN <<V("C06", "violation", "", "a put heavier than the cache was not rejected for that reason, or changed something")>> ELSE <<>>)
    \o (IF site = "A_Space" /\ L.w <= S.cfg.max /\ S.cfg.max - S.used >= L.w /\ o.next # "K_AddKw"
        THEN <<V("C06", "violation", "", "a put that fits in the free space was not accepted directly")>> ELSE <<>>)
    \o (IF site = "A_Space" /\ L.w <= S.cfg.max /\ S.cfg.max - S.used < L.w /\ o.next = "K_AddKw"
        THEN <<V("C06", "violation", "", "a put that does not fit was accepted without making space")>> ELSE <<>>)
    \* a put that needs space is refused only after a victim hotter than it was met or the candidates ran out
    \o (IF site = "A_Sample" /\ o.next = "W_Recv" /\ ~(\E i \in DOMAIN o.ev : o.ev[i].e = "victim")
           /\ inp.sample # {} /\ \E x \in inp.sample : x.est <= inp.inc
        THEN <<V("C06", "violation", "", "the put was refused without an eviction although a sampled key is not hotter than it")>> ELSE <<>>)
    \* victim selection and the stop rule, from the logged decision
    \o (IF \E i \in DOMAIN o.ev : o.ev[i].e = "victim"
        THEN LET vi == CHOOSE i \in DOMAIN o.ev : o.ev[i].e = "victim" /\ \A j \in DOMAIN o.ev : o.ev[j].e = "victim" => i >= j
                 f == o.ev[vi].f   \* [id, est, weight, incoming est, space available]
                 smp == IF site = "A_Sample" THEN inp.sample ELSE inp.refill
                 evicted == o.next \in {"K_DelKw", "K_DelUsed"} /\ S2.lc[a].mode = "evict"
             IN (IF smp # {} /\ \E x \in smp : x.est < f[2]
                 THEN <<V("C06", "violation", "", "the victim is not a key of lowest estimated frequency in the sample")>> ELSE <<>>)
                \o (IF f[4] < f[2] /\ o.next # "W_Recv"
                    THEN <<V("C06", "violation", "", "a victim hotter than the incoming key was evicted")>> ELSE <<>>)
                \o (IF f[4] >= f[2] /\ f[5] < G.adm.w /\ o.next = "W_Recv"
                    THEN <<V("C06", "violation", "", "the put was rejected although the victim was not hotter than the incoming key")>> ELSE <<>>)
                \o (IF f[5] >= G.adm.w
                    THEN <<V("C06", "violation", "", "eviction continued although enough space was available")>> ELSE <<>>)
        ELSE <<>>)
    \* the frequencies the decision uses are the keys' estimated access frequencies (o.truth: what the sketch says)
    \o (IF \E i \in DOMAIN o.ev : o.ev[i].e \in {"sample", "refill"} /\
              \E t \in EvTriples(o.ev[i].f, 3) :
                 \* (entries kept from an earlier step carry the estimate they were sampled with)
                 /\ (o.ev[i].e = "sample" \/ t.id \notin G.smp)
                 /\ \E j \in DOMAIN o.truth : o.truth[j][1] = t.id /\ o.truth[j][2] # t.est
        THEN <<V("C06", "violation", "", "a sampled key is ranked by a frequency that is not its estimated access frequency")>> ELSE <<>>)
    \o (IF \E i \in DOMAIN o.ev : o.ev[i].e = "sample" /\
              \E j \in DOMAIN o.truth : o.truth[j][1] = o.ev[i].f[1] /\ o.truth[j][2] # o.ev[i].f[2]
        THEN <<V("C06", "violation", "", "the incoming key is ranked by a frequency that is not its estimated access frequency")>> ELSE <<>>)
    \* the final decision
    \o (IF site \in {"A_Sample", "K_DelKw", "K_DelUsed"} /\ L.mode \in {"", "evict"} /\ L.cmd.kind \in {"put", "putttl"}
           /\ o.next = "K_AddKw" /\ S2.cfg.max - S2.used < G.adm.w
        THEN <<V("C06", "violation", "", "the put was accepted although not enough space resulted")>> ELSE <<>>)
    \o (IF site \in {"A_Sample", "K_DelKw", "K_DelUsed"} /\ L.mode \in {"", "evict"} /\ L.cmd.kind \in {"put", "putttl"}
           /\ o.next = "W_Recv" /\ S2.cfg.max - S2.used >= G.adm.w
        THEN <<V("C06", "violation", "", "the put was rejected although enough space resulted")>> ELSE <<>>)

-----------------------------------------------------------------------------
(* C07: put never overwrites; KeyAlreadyExists only for readable keys *)

DeleteInFlight(G, k) == \E id \in DOMAIN G.ops : G.ops[id].k = k /\ G.ops[id].kind = "del"

RejExistsVerdict(S, G, k) ==
  IF ~Present(S, k) THEN <<V("C07", "violation", "", "put of an absent key rejected with KeyAlreadyExists")>>
  ELSE LET e == S.store[k] IN
       IF Alive(e, S.now) THEN <<>>
       ELSE IF e.soft
       THEN \* a delete in flight is not one of the states the statement lists; a mark that outlives every delete is
            IF DeleteInFlight(G, k) THEN <<>>
            ELSE <<V("C07", "violation", "", "put rejected with KeyAlreadyExists for a key that reads as absent: its entry is marked deleted although no delete of it is pending")>>
       ELSE IF e.exp # NoExp /\ ((e.id \in DOMAIN S.ttl[ShardOf(S, e.exp)] /\ S.ttl[ShardOf(S, e.exp)][e.id] = e.exp)
                              \* (or about to be: the write that gave it this expiry has not reached its index update yet)
                              \/ UpsertInFlightOn(S, e.id) \/ (S.pc["worker"] = "T_Put" /\ S.lc["worker"].id = e.id))
       THEN <<V("C07", "known", "D4", "put of a key past its time to live (not swept yet) rejected with KeyAlreadyExists")>>
       ELSE IF k \in DOMAIN G.taintK \/ e.id \in DOMAIN G.stale
       THEN <<V("C07", "known", IF e.id \in DOMAIN G.stale THEN G.stale[e.id] ELSE G.taintK[k], "put rejected for an expired entry that a recorded store/index race left outside the expiry index")>>
       ELSE <<V("C07", "violation", "", "put rejected with KeyAlreadyExists for a key that reads as absent and is not registered for any sweep: it is refused for ever")>>

J_C07(S, a, site, inp, S2, o, G, G2) ==
  LET L == S.lc[a] IN
  CASE site = "C_PutCheck" /\ IsCaller(a) ->
         LET k == o.op.k
             rejected == o.next = "C_Idle" /\ o.ret.st = StRejExists
         IN (IF rejected THEN RejExistsVerdict(S, G, k) ELSE <<>>)
            \o (IF Readable(S, k) /\ ~rejected
                THEN <<V("C07", "violation", "", "put of a readable key was not rejected on the spot")>> ELSE <<>>)
            \o (IF Readable(S, k) /\ (S2.store # S.store \/ S2.kw # S.kw \/ S2.used # S.used \/ S2.ttl # S.ttl)
                THEN <<V("C07", "violation", "", "put of a readable key changed the cache")>> ELSE <<>>)
    [] site = "W_PutCheck" /\ a = "worker" /\ Sync(G, a, site, o) ->
         LET k == L.key
             rejected == o.next = "W_Recv" /\ L.cmd.ack \in DOMAIN S2.ack /\ S2.ack[L.cmd.ack].st = StRejExists
         IN (IF rejected THEN RejExistsVerdict(S, G, k) ELSE <<>>)
            \o (IF Readable(S, k) /\ ~rejected
                THEN <<V("C07", "violation", "", "a queued put of a readable key was not rejected with KeyAlreadyExists")>> ELSE <<>>)
    [] a = "worker" /\ Sync(G, a, site, o) /\ L.cmd.kind \in {"put", "putttl"} /\ site \notin {"W_PutCheck", "W_Recv"}
       /\ o.next = "W_Recv" /\ L.cmd.ack \in DOMAIN S2.ack /\ S2.ack[L.cmd.ack].st = StRejExists ->
         <<V("C07", "violation", "", "KeyAlreadyExists decided outside the existence check")>>
    [] site = "W_StorePut" /\ a = "worker" /\ Sync(G, a, site, o) /\ Readable(S, L.cmd.key) ->
         <<V("C07", "violation", "", "a put overwrote a readable key")>>
    [] OTHER -> <<>>

-----------------------------------------------------------------------------
(* C08: put_or_update changes exactly what was requested, or acts as put *)

J_C08(S, a, site, inp, S2, o, G, G2) ==
  LET L == S.lc[a] op == IF IsCaller(a) THEN o.op ELSE L.op k == op.k IN
  CASE site = "C_PouUpdate" /\ IsCaller(a) ->
         IF Readable(S, k)
         THEN LET e == S.store[k]
                  ok == Present(S2, k) /\ S2.store[k].id = e.id
                  e2 == S2.store[k]
                  wantVal == IF HasV(op) THEN op.v ELSE e.val
                  expOk == IF op.rm THEN e2.exp = NoExp
                           ELSE IF HasTtl(op) THEN (op.ttl >= 1000000 \/ e2.exp = S.now + op.ttl)
                           ELSE e2.exp = e.exp
              IN (IF ~ok THEN <<V("C08", "violation", "", "upsert of a readable key did not update it in place")>>
                  ELSE (IF e2.val # wantVal THEN <<V("C08", "violation", "", "upsert changed the value although none was given, or did not store the given value")>> ELSE <<>>)
                    \o (IF ~expOk THEN <<V("C08", "violation", "", "upsert did not set the time to live exactly as requested")>> ELSE <<>>)
                    \o (IF e2.soft THEN <<V("C08", "violation", "", "upsert marked the key deleted")>> ELSE <<>>))
         ELSE IF Present(S, k)
         THEN \* the key reads as absent but the entry is physically there: the code updates the dead entry in place
              IF o.next = "C_PouWeightOf"
              THEN <<V("C08", "known", "D5", "upsert applied in place to an entry that reads as absent (expired or being deleted)")>>
              ELSE <<>>
         ELSE \* absent: must behave like the corresponding put
              IF o.ret.panic THEN (IF HasV(op) THEN <<V("C08", "violation", "", "well-formed upsert of an absent key panicked")>> ELSE <<>>)
              ELSE IF o.next # "C_Send" THEN <<V("C08", "violation", "", "upsert of an absent key did not queue a put")>>
              ELSE LET c == S2.lc[a].cmd IN <<>>
    [] site = "C_Send" /\ IsCaller(a) /\ Sync(G, a, site, o) /\ op.op = "pou" /\ \E i \in DOMAIN o.ev : o.ev[i].e = "send" ->
         \* the command that was queued: [ack, kind, id, weight, ttl secs, ttl nanos, ok]
         LET f == o.ev[CHOOSE i \in DOMAIN o.ev : o.ev[i].e = "send"].f
             isPut == L.cmd.kind \in {"put", "putttl"}
         IN IF isPut
            THEN (IF (f[2] = 2) # HasTtl(op) \/ (HasTtl(op) /\ op.ttl < 1000000 /\ f[5] # op.ttl)
                  THEN <<V("C08", "violation", "", "upsert of an absent key queued a put with a different time to live")>> ELSE <<>>)
                 \o (IF HasW(op) /\ op.w < 1000000 /\ f[4] # op.w
                     THEN <<V("C08", "violation", "", "upsert of an absent key queued a put with a different weight")>> ELSE <<>>)
            ELSE (IF HasW(op) /\ op.w < 1000000 /\ (f[2] # 4 \/ f[4] # op.w)
                  THEN <<V("C08", "violation", "", "the explicitly requested weight was not sent to the worker")>> ELSE <<>>)
                 \o (IF ~HasW(op) /\ f[2] = 4 /\ L.cmd.kind = "upd" /\ L.cmd.w < 1000000 /\ f[4] # L.cmd.w
                     THEN <<V("C08", "violation", "", "the weight sent for an upsert without explicit weight is not the one its change implies (entry weight, or the key's weight adjusted by the size of an expiry-index entry)")>>
                     ELSE <<>>)
    [] site = "C_PouWeightOf" /\ IsCaller(a) /\ HasW(op) /\ o.next = "C_Idle" /\ ~o.ret.panic ->
         <<V("C08", "violation", "", "an explicitly requested weight was dropped"),
           V("C11", "violation", "", "a write the API accepted was neither queued nor applied (a weight update answered on the spot): the calls are not applied in the order they were made")>>
    [] site = "K_Update" /\ a = "worker" /\ Sync(G, a, site, o) /\ L.id \in DOMAIN S.kw /\ (L.id \notin DOMAIN S2.kw \/ S2.kw[L.id].w # L.w) ->
         <<V("C08", "violation", "", "the acknowledged weight update is not the key's charged weight")>>
    [] OTHER -> <<>>

-----------------------------------------------------------------------------
(* C09: expiry as seen by reads *)

J_C09(S, a, site, inp, S2, o, G, G2) ==
  LET L == S.lc[a] IN
  CASE IsCaller(a) /\ o.next = "C_Idle" /\ IsReadOp(o.op) /\ a \in DOMAIN G.obs ->
         LET facts == IF site = "C_Get" THEN GhostObs(G, S, a) ELSE G.obs[a]
             vals == ReadVals(o)
             I == DOMAIN facts \cap DOMAIN vals
         IN (IF \E i \in I : vals[i] # NoVal /\ facts[i].present /\ facts[i].exp # NoExp /\ facts[i].now > facts[i].exp
             THEN <<V("C09", "violation", "", "a read served a value whose time to live had elapsed")>> ELSE <<>>)
            \o (IF \E i \in I : vals[i] = NoVal /\ facts[i].present /\ ~facts[i].soft /\ ~facts[i].shut
                                  /\ facts[i].exp # NoExp /\ facts[i].now < facts[i].exp
                THEN <<V("C09", "violation", "", "a read hid a value whose time to live had not elapsed")>> ELSE <<>>)
            \o (IF \E i \in I : vals[i] = NoVal /\ facts[i].present /\ ~facts[i].soft /\ ~facts[i].shut /\ facts[i].exp = NoExp
                THEN <<V("C09", "violation", "", "a read hid a key that has no time to live")>> ELSE <<>>)
    [] site = "W_StorePut" /\ a = "worker" /\ Sync(G, a, site, o) /\ Present(S2, L.cmd.key) /\ S2.store[L.cmd.key].id = L.cmd.id ->
         LET e2 == S2.store[L.cmd.key] IN
         IF L.cmd.kind = "putttl" /\ L.cmd.ttl < 1000000 /\ e2.exp # S.now + L.cmd.ttl
         THEN <<V("C09", "violation", "", "put with time to live stored a wrong deadline")>>
         ELSE IF L.cmd.kind = "put" /\ e2.exp # NoExp
         THEN <<V("C09", "violation", "", "put without time to live stored a deadline")>>
         ELSE <<>>
    [] OTHER -> <<>>

-----------------------------------------------------------------------------
(* C10: the sweeper removes exactly the expired keys *)

J_C10(S, a, site, inp, S2, o, G, G2) ==
  IF a # "sweeper" \/ ~Sync(G, a, site, o) THEN <<>>
  ELSE LET L == S.lc[a] IN
  CASE site = "K_DelUsed" /\ Present(S, L.key) /\ ~Present(S2, L.key) ->
         LET e == S.store[L.key] IN
         LET x3 == Get(G.e3, L.key, [mode |-> "none", val |-> NoVal, dl |-> NoExp, src |-> "none"])
             \* the same wrongful removal seen from C09 (hidden by "expiry" before the deadline) and C08 (an accepted upsert is lost)
             More(kind, finding) ==
               (IF ~e.soft THEN <<V("C09", kind, finding, "the sweeper expired a key whose deadline had not passed: reads no longer return it")>> ELSE <<>>)
               \o (IF ~e.soft /\ x3.mode = "val" /\ x3.src = "pou" /\ x3.val = e.val
                   THEN <<V("C08", kind, finding, "an upsert acknowledged as accepted was silently lost (swept before its deadline)")>> ELSE <<>>)
         IN
         IF e.id # L.vic.id
         THEN IF Get(G.evw, a, 0) = L.vic.id
              THEN \* the entry was replaced (delete + re-put applied) inside this eviction's window
                   <<V("C10", "known", "D11", "the sweep of an old key id removed the key's newer incarnation, stored inside the eviction window")>>
              ELSE <<V("C10", "violation", "", "the sweep of an old key id removed a newer incarnation of the key (the old id was still charged after the key had been put again)")>>
                   \o More("violation", "")
         \* (the deadline is judged by the configured clock, S.now, not only by the time the sweeper says it read)
         ELSE IF e.exp = NoExp \/ e.exp > Min2(L.t, S.now)
         THEN IF UpsertInFlightOn(S, e.id)
              THEN <<V("C10", "known", "D12", "sweep between an upsert's store update and its index update")>> \o More("known", "D12")
              ELSE IF e.id \in DOMAIN G.stale
              THEN <<V("C10", "known", G.stale[e.id], "the expiry index was written with an expiry the entry did not have (an upsert of the key ran in between)")>>
                   \o More("known", G.stale[e.id])
              ELSE <<V("C10", "violation", "", "a sweep removed a key without time to live or whose expiry lies in the future")>> \o More("violation", "")
         ELSE <<>>
    [] o.next = "S_Done" /\ site \in {"S_Sweep", "K_DelKw", "K_DelUsed"} ->
         LET sh == IF site = "S_Sweep" THEN L.shard ELSE L.shard
             left == {id \in DOMAIN S2.ttl[sh] : S2.ttl[sh][id] < L.t} IN
         IF left # {} THEN <<V("C10", "violation", "", "an expired entry was left in the swept shard")>> ELSE <<>>
    [] site = "S_Tick" /\ o.next = "S_Sweep" /\ o.narg # ShardOf(S, S.now) ->
         <<V("C10", "violation", "", "the sweep visits a shard other than the one of the current time")>>
    [] OTHER -> <<>>

\* C04 / C07 at quiescence: a delete mark never outlives the deletes (the entry would read as absent for ever and still refuse puts)
J_C04q(S, a, site, inp, S2, o, G, G2) ==
  IF ~Quiescent(S2) \/ S2.shut \/ G.shutSeen \/ G2.dead # {} \/ G2.ops # EmptyFn THEN <<>>
  ELSE IF \E k \in DOMAIN S2.store : S2.store[k].soft
       THEN <<V("C07", "violation", "", "an entry marked as deleted stays in the store when no operation is in flight: the key reads as absent but every put of it is refused as existing"),
              V("C04", "violation", "", "a delete completed but its entry (marked as deleted) is still in the store")>>
       ELSE IF G2.delAcc /\ G2.taintK = EmptyFn /\ G2.stale = EmptyFn
               /\ SumSet([id \in DOMAIN S2.kw |-> S2.kw[id].w], DOMAIN S2.kw) # S2.used
       THEN <<V("C04", "violation", "", "after accepted deletes, with nothing in flight, weight is counted that no held key owns: a deleted key's weight was not released completely")>>
       ELSE <<>>

\* C10 at quiescence: every live entry with a deadline is registered in the index under that deadline
J_C10q(S, a, site, inp, S2, o, G, G2) ==
  IF ~Quiescent(S2) \/ S2.shut \/ G.shutSeen \/ G2.dead # {} THEN <<>>
  ELSE LET missing == {k \in DOMAIN S2.store : S2.store[k].exp # NoExp /\ S2.store[k].id \in DOMAIN S2.kw /\
                         LET e == S2.store[k] s == ShardOf(S2, e.exp)
                         IN ~(e.id \in DOMAIN S2.ttl[s] /\ S2.ttl[s][e.id] = e.exp)}
       IN IF missing = {} THEN <<>>
          ELSE IF \A k \in missing : k \in DOMAIN G2.taintK \/ S2.store[k].id \in DOMAIN G2.stale
          THEN <<V("C10", "known", LET k == CHOOSE x \in missing : TRUE IN
                                   IF S2.store[k].id \in DOMAIN G2.stale THEN G2.stale[S2.store[k].id] ELSE G2.taintK[k],
                   "expiry index out of step with the store after a recorded race")>>
          ELSE <<V("C10", "violation", "", "a key with a time to live is not registered for expiry: it would never be swept")>>
               \o (IF \E k \in missing : Get(G2.e3, k, [mode |-> "none", val |-> NoVal, dl |-> NoExp, src |-> "none"]).src = "pou"
                   THEN <<V("C08", "violation", "", "the time to live set by an accepted upsert is not the one registered for expiry: the change was not carried into the expiry index")>>
                   ELSE <<>>)

-----------------------------------------------------------------------------
(* C11: exactly once, one at a time, in submission order *)

J_C11(S, a, site, inp, S2, o, G, G2) ==
  (IF a = "worker" /\ site \in {"W_Recv", "W_Drain"} /\ \E i \in DOMAIN o.ev : o.ev[i].e = "recv"
   THEN LET f == o.ev[CHOOSE i \in DOMAIN o.ev : o.ev[i].e = "recv"].f IN
        IF S.queue = <<>> THEN <<V("C11", "violation", "", "the worker received a command that is not in the queue")>>
        ELSE IF Head(S.queue).ack # f[1]
        THEN <<V("C11", "violation", "", "commands are not applied in submission order")>> ELSE <<>>
   ELSE <<>>)
  \o (IF a = "worker" /\ \E n \in NewlyDone(S, S2) : \E m \in DOMAIN S2.ack : m < n /\ ~S2.ack[m].done
      THEN <<V("C11", "violation", "", "an acknowledgement completed before an earlier one")>> ELSE <<>>)
  \o (IF \E n \in DOMAIN S.ack \cap DOMAIN S2.ack : S.ack[n].done /\ (~S2.ack[n].done \/ S2.ack[n].st # S.ack[n].st)
      THEN <<V("C11", "violation", "", "a completed acknowledgement changed (command applied twice?)")>> ELSE <<>>)
  \o (IF Quiescent(S2) /\ WorkerAlive(S2) /\ G2.dead = {} /\ (\E n \in DOMAIN S2.ack : ~S2.ack[n].done)
      THEN <<V("C11", "violation", "", "a queued command was dropped: its acknowledgement is still pending at quiescence")>> ELSE <<>>)
  \o (IF ~S2.shut /\ ~G.shutSeen /\ G2.dead = {}
         /\ \E k \in DOMAIN G2.pairs : LET q == G2.pairs[k] IN
               q.valid /\ q.putDone /\ q.delDone /\ Present(S2, k)
               /\ ~(k \in DOMAIN G.pairs /\ G.pairs[k].put = q.put /\ G.pairs[k].del = q.del /\ G.pairs[k].putDone /\ G.pairs[k].delDone)
      THEN <<V("C11", "violation", "", "put followed without awaiting by a delete of the same key (same thread): both are complete and the key is present")>> ELSE <<>>)
  \o (IF ~S2.shut /\ ~G.shutSeen /\ G2.dead = {}
         /\ \E k \in DOMAIN G2.deadv \cap DOMAIN S2.store : S2.store[k].val \in G2.deadv[k]
      THEN <<V("C11", "violation", "", "a value written before an acknowledged delete of its key is in the cache after it (delete dropped or applied out of order)")>> ELSE <<>>)
  \o (IF Quiescent(S2) /\ ~S2.shut /\ ~G.shutSeen /\ G2.dead = {} /\ G2.ops = EmptyFn /\ \E k \in G2.absent : Present(S2, k)
      THEN <<V("C11", "violation", "", "put followed by delete of the same key (same thread) left the key present at quiescence")>> ELSE <<>>)
  \o (IF a = "worker" /\ Sync(G, a, site, o) /\ S.lc[a].cmd.kind = "del" /\ o.next = "W_Recv" /\ site # "W_Recv"
         /\ S.lc[a].cmd.ack \in DOMAIN G.ackop /\ G.ackop[S.lc[a].cmd.ack] \in DOMAIN G.ops
         /\ G.ops[G.ackop[S.lc[a].cmd.ack]].pd /\ Present(S2, S.lc[a].cmd.key) /\ ~S2.shut
      THEN <<V("C11", "violation", "", "put followed by delete of the same key left the key present")>> ELSE <<>>)

-----------------------------------------------------------------------------
(* C13: shutdown *)

J_C13(S, a, site, inp, S2, o, G, G2) ==
  (IF IsCaller(a) /\ site = "C_Idle" /\ G.shutDone /\ o.next = "C_Idle"
   THEN (IF IsWriteOp(o.op) /\ o.ret.st # StErr
         THEN <<V("C13", "violation", "", "a write after shutdown() returned did not return an error")>> ELSE <<>>)
        \o (IF o.op.op = "get" /\ o.ret.v # NoVal
            THEN <<V("C13", "violation", "", "a read after shutdown() returned a value")>> ELSE <<>>)
        \o (IF o.op.op = "mget" /\ \E i \in DOMAIN o.ret.vs : o.ret.vs[i] # NoVal
            THEN <<V("C13", "violation", "", "a multi read after shutdown() returned a value")>> ELSE <<>>)
   ELSE <<>>)
  \o (IF IsCaller(a) /\ site = "C_Idle" /\ G.shutDone /\ o.next # "C_Idle" /\ (IsWriteOp(o.op) \/ IsReadOp(o.op))
      THEN <<V("C13", "violation", "", "an operation after shutdown() returned was not refused on entry")>> ELSE <<>>)
  \o (IF a = "worker" /\ site = "W_Drain" /\ \E n \in NewlyDone(S, S2) : S2.ack[n].st # StShuttingDown
      THEN <<V("C13", "violation", "", "a command behind Shutdown was not answered with ShuttingDown")>> ELSE <<>>)
  \o (IF a = "worker" /\ site # "W_Drain" /\ site # "W_Recv" /\ \E n \in NewlyDone(S, S2) : S2.ack[n].st = StShuttingDown
      THEN <<V("C13", "violation", "", "an executed command was answered with ShuttingDown")>> ELSE <<>>)
  \o (IF Quiescent(S2) /\ G2.shutDone /\ WorkerAlive(S2) /\ (\E n \in DOMAIN S2.ack : ~S2.ack[n].done)
      THEN <<V("C13", "violation", "", "an acknowledgement handed out before or during shutdown never completed")>> ELSE <<>>)

-----------------------------------------------------------------------------
(* C14 at system level: the estimate admission uses for a key is at least the number of its accesses that were delivered to the
   sketch in the current ageing window (capped), whatever path they took through buffers, channel and consumer *)

IdKey(S, id) == IF id \in DOMAIN S.kw THEN S.kw[id].key
                ELSE LET cs == {n \in DOMAIN S.cmds : S.cmds[n].id = id /\ S.cmds[n].kind \in {"put", "putttl"}}
                     IN IF cs = {} THEN -1 ELSE S.cmds[CHOOSE n \in cs : TRUE].key

J_C14sys(S, a, site, inp, S2, o, G, G2) ==
  IF a # "worker" \/ o.truth = <<>> \/ S.cfg.hash \notin {"id", "const"} THEN <<>>
  ELSE LET bad == {j \in DOMAIN o.truth :
                     LET k == IdKey(S, o.truth[j][1]) IN
                     k >= 0 /\ o.truth[j][2] < (LET n == Get(G.acc, HashOf(S.cfg, k), 0) IN IF n > 16 THEN 16 ELSE n)}
       IN IF bad = {} THEN <<>>
          ELSE <<V("C14", "violation", "", "admission used an estimate below the number of accesses delivered to the sketch for that key in this ageing window")>>

-----------------------------------------------------------------------------
(* C15: every hit is buffered, delivered or counted as dropped *)

J_C15(S, a, site, inp, S2, o, G, G2) ==
  IF S2.shut \/ G.shutSeen THEN <<>>
  ELSE LET inflight == Cardinality({c \in DOMAIN S2.pc : IsCaller(c) /\ S2.pc[c] = "C_Access"})
           buffered == SumSet([i \in DOMAIN S2.buf |-> Len(S2.buf[i])], DOMAIN S2.buf)
       IN (IF S2.stats.hits # buffered + S2.stats.aadd + S2.stats.adrop + inflight
           THEN <<V("C15", "violation", "", "hits are not the sum of buffered, delivered and dropped access records")>> ELSE <<>>)
          \o (IF S2.chan = <<>> /\ S2.pc["consumer"] = "R_Recv" /\ G2.applied # S2.stats.aadd
              THEN <<V("C15", "violation", "", "access records counted as delivered were not applied to the sketch exactly once")>> ELSE <<>>)

-----------------------------------------------------------------------------
(* C16: statistics at quiescence *)

J_C16(S, a, site, inp, S2, o, G, G2) ==
  IF ~Quiescent(S2) \/ S2.shut \/ G.shutSeen \/ G2.dead # {} THEN <<>>
  ELSE LET st == S2.stats IN
    (IF st.hits + st.misses # G2.lookups
     THEN <<V("C16", "violation", "", "hits + misses differs from the number of key lookups")>> ELSE <<>>)
    \o (IF st.added - st.deleted # Cardinality(DOMAIN S2.store)
        THEN <<V("C16", "violation", "", "keys added - keys deleted differs from the number of keys held")>> ELSE <<>>)
    \o (IF st.wadd - st.wrem # S2.used
        THEN <<V("C16", "violation", "", "weight added - weight removed differs from the total weight used")>> ELSE <<>>)
    \o (IF st.rejected # G2.refusals
        THEN <<V("C16", "violation", "", "rejected keys differs from the number of puts refused by admission")>> ELSE <<>>)

\* the hit ratio as reported by stats_summary(), in parts per million
J_C16r(S, a, site, inp, S2, o, G, G2) ==
  IF IsCaller(a) /\ o.next = "C_Idle" /\ o.op.op = "stats" /\ ~S2.shut /\ ~G.shutSeen
  THEN LET h == S2.stats.hits m == S2.stats.misses
           want == IF h + m = 0 THEN 0 ELSE (h * 1000000) \div (h + m)
       IN IF (h = 0 /\ o.ret.n # 0) \/ (h > 0 /\ (o.ret.n < want - 1 \/ o.ret.n > want + 1))
          THEN <<V("C16", "violation", "", "hit ratio is not hits / lookups")>> ELSE <<>>
  ELSE <<>>

-----------------------------------------------------------------------------
(* C17: no panic, no dead background thread *)

Huge == 1073741824   \* weights at or above this stand for values near i64::MAX (two-zone encoding of the traces)
HugeAround(S, a) == S.lc[a].w >= Huge \/ S.lc[a].op.w >= Huge \/ S.used >= Huge \/ \E id \in DOMAIN S.kw : S.kw[id].w >= Huge

J_C17(S, a, site, inp, S2, o, G, G2) ==
  (IF o.next = "DEAD" /\ a \in {"worker", "sweeper", "consumer"}
   THEN IF HugeAround(S, a) /\ site \in {"K_Update", "K_DelUsed"}
        THEN <<V("C17", "known", "D10", "unchecked i64 weight arithmetic overflowed on a background thread")>>
        ELSE <<V("C17", "violation", "", "a background thread terminated by a panic")>> ELSE <<>>)
  \o (IF IsCaller(a) /\ o.next \in {"C_Idle", "DEAD"} /\ o.ret.panic
         /\ ~(o.op.op = "pou" /\ ~HasV(o.op) /\ site = "C_PouUpdate")
      \* (the derived weight `existing + 24` is computed after the index insert: the panic surfaces in the span of C_PouWeightOf or T_Put)
      THEN IF HugeAround(S, a) /\ o.op.op = "pou" /\ site \in {"C_PouWeightOf", "T_Put"}
           THEN <<V("C17", "known", "D10", "unchecked i64 weight arithmetic overflowed in the caller")>>
           ELSE <<V("C17", "violation", "", "an API call with valid arguments panicked")>> ELSE <<>>)

-----------------------------------------------------------------------------
(* judges of the end of a run: every caller has finished its program (or nothing can move any more) *)

\* what can be judged from the observed states alone (no ghost, no locals of the specification)
JudgeLoose(S2, G2) ==
  IF S2.shut \/ G2.shutSeen THEN <<>>
  ELSE (IF S2.used < 0 THEN <<V("C01", "violation", "", "total weight used is negative")>> ELSE <<>>)
    \o (IF Quiescent(S2) /\ G2.dead = {} /\ SumSet([id \in DOMAIN S2.kw |-> S2.kw[id].w], DOMAIN S2.kw) # S2.used
        THEN <<V("C05", "violation", "", "total weight differs from the sum of the charged weights")>> ELSE <<>>)
    \o (IF Quiescent(S2) /\ G2.dead = {} /\ S2.used <= S2.cfg.max
           /\ SumSet([id \in DOMAIN S2.kw |-> S2.kw[id].w], DOMAIN S2.kw) > S2.cfg.max + SumCredit(G2, S2)
        THEN <<V("C01", "violation", "", "the charged weights add up to more than the cache weight while the total reported as used is below it")>> ELSE <<>>)

JudgeEnd(S, G, stuck) ==
  IF G.loose THEN JudgeLoose(S, G) ELSE
  LET pending == {n \in DOMAIN S.ack : ~S.ack[n].done}
      workerPanicked == "worker" \in G.dead \/ S.pc["worker"] = "DEAD"
  IN (IF pending # {} /\ ~workerPanicked /\ G.shutDone
      THEN <<V("C13", "violation", "", "an acknowledgement handed out before or during shutdown never completed")>> ELSE <<>>)
     \o (IF pending # {} /\ ~workerPanicked /\ ~G.shutSeen
         THEN <<V("C11", "violation", "", "a queued command was never applied: its acknowledgement is still pending at the end of the run"),
                V("C12", "violation", "", "an acknowledgement never resolves: it is still pending when every thread is idle and the worker is alive")>> ELSE <<>>)
     \o (IF ~S.shut /\ ~G.shutSeen /\ ~workerPanicked /\ pending = {} /\ \E k \in G.absent : Present(S, k)
         THEN <<V("C11", "violation", "", "put followed by delete of the same key (same thread) left the key present")>> ELSE <<>>)

-----------------------------------------------------------------------------

Judge(S, a, site, inp, S2, o, G, G2) ==
  IF G.loose \/ G2.loose THEN JudgeLoose(S2, G2) ELSE
     J_C01(S, a, site, inp, S2, o, G, G2)
  \o J_C02(S, a, site, inp, S2, o, G, G2)
  \o J_C03(S, a, site, inp, S2, o, G, G2)
  \o J_C03p(S, a, site, inp, S2, o, G, G2)
  \o J_C04(S, a, site, inp, S2, o, G, G2)
  \o J_C05(S, a, site, inp, S2, o, G, G2)
  \o J_C06(S, a, site, inp, S2, o, G, G2)
  \o J_C07(S, a, site, inp, S2, o, G, G2)
  \o J_C08(S, a, site, inp, S2, o, G, G2)
  \o J_C09(S, a, site, inp, S2, o, G, G2)
  \o J_C10(S, a, site, inp, S2, o, G, G2)
  \o J_C10q(S, a, site, inp, S2, o, G, G2)
  \o J_C04q(S, a, site, inp, S2, o, G, G2)
  \o J_C11(S, a, site, inp, S2, o, G, G2)
  \o J_C13(S, a, site, inp, S2, o, G, G2)
  \o J_C14sys(S, a, site, inp, S2, o, G, G2)
  \o J_C15(S, a, site, inp, S2, o, G, G2)
  \o J_C16(S, a, site, inp, S2, o, G, G2)
  \o J_C16r(S, a, site, inp, S2, o, G, G2)
  \o J_C17(S, a, site, inp, S2, o, G, G2)
=============================================================================
