SPECIFICATION Spec
CONSTANTS
  Callers = {"c0", "c1"}
  Programs <- ProgsEvict
  Alphabet = {}
  Budget = 0
  CfgRec <- CfgEvict
  Horizon = 0
  EstOf <- EstCold
  WithConsumer = FALSE
  WithSweeper = FALSE
  KeepHist = FALSE
INVARIANT NoViolation
INVARIANT Inv_C01
INVARIANT Inv_TypeOK
CHECK_DEADLOCK FALSE
