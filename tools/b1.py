"""Direction 1 (specification -> implementation): TLC enumerates / samples behaviours of a bounded instance,
each behaviour's schedule becomes one scenario that the harness replays step by step against the real code."""
import json, os, random, re, subprocess, time

SPEC = "/verif/spec"
SYS_SITES = ["C_Idle", "C_Poll", "C_PutCheck", "C_Send", "C_DelMark", "C_PouUpdate", "C_PouWeightOf", "T_UpdRemove", "T_UpdInsert",
             "T_Put", "T_Del", "C_Get", "C_Access", "C_ShutFlag", "C_ShutPolicy", "C_ShutTicker", "C_ShutStore", "C_ShutClearPolicy",
             "C_ShutClearTtl", "W_Recv", "W_Drain", "W_PutCheck", "A_Space", "A_Sample", "K_DelKw", "K_DelUsed", "K_AddKw",
             "K_AddUsed", "W_StorePut", "K_Update", "W_DelStore", "S_Tick", "S_Sweep", "S_Done", "R_Recv", "R_Apply"]


def replay_lines(out):
    res = []
    for m in re.finditer(r'<<"REPLAY", "(.*?)">>\s*$', out, re.M):
        js = m.group(1).replace('\\"', '"').replace('\\\\', '\\')
        try:
            res.append(json.loads(js))
        except Exception:
            pass
    return res


def export_schedules(gen, scen_path, workdir, seed):
    os.makedirs(workdir, exist_ok=True)
    sim = f"-simulate num={gen['simulate'][0]} -depth {gen['simulate'][1]} -seed {seed}" if gen.get("simulate") else ""
    cmd = (f"timeout -k 10 {gen.get('timeout', 600)} tlc -workers {gen.get('workers', 8)} {sim} -metadir {workdir}/meta -cleanup "
           f"-noGenerateSpecTE -config {gen['cfg']}.cfg {gen['module']}.tla")
    t = time.time()
    p = subprocess.run(cmd, shell=True, cwd=SPEC, stdout=subprocess.PIPE, stderr=subprocess.STDOUT, text=True)
    out = p.stdout
    open(f"{workdir}/tlc.out", "w").write(out[-200000:])
    hists = replay_lines(out)
    scen_json = None
    m = re.search(r'<<"SCENARIO", "(.*?)">>\s*$', out, re.M)
    if m:
        try:
            scen_json = json.loads(m.group(1).replace('\\"', '"').replace('\\\\', '\\'))
        except Exception:
            scen_json = None
    info = {"cfg": gen["cfg"], "behaviours_exported": len(hists), "wall_s": round(time.time() - t, 1), "exhaustive": not gen.get("simulate")}
    if not hists:
        info["error"] = f"TLC exported no behaviour for {gen['cfg']} (rc={p.returncode}); see {workdir}/tlc.out"
        return info
    # distinct schedules only
    uniq = {json.dumps(h): h for h in hists}
    hists = list(uniq.values())
    info["distinct_schedules"] = len(hists)
    if gen.get("sample") and len(hists) > gen["sample"]:
        rnd = random.Random(seed)
        hists = rnd.sample(hists, gen["sample"])
        info["sampled"] = gen["sample"]
    with open(scen_path, "w") as f:
        for i, h in enumerate(hists):
            if gen["kind"] == "ack":
                sc = {"name": f"{gen['cfg']}-{i}", "status": gen["status"], "pollers": gen["pollers"], "steps": h, "seed": 0}
            else:
                if scen_json is None:
                    info["error"] = f"TLC printed no SCENARIO for {gen['cfg']}"
                    return info
                c = scen_json["cfg"]
                est = scen_json.get("est", {})
                if isinstance(est, list):      # a TLA+ function over 1..n is printed as an array
                    est = {str(i + 1): v for i, v in enumerate(est)}
                sc = {"name": f"{gen['cfg']}-{i}",
                      "cfg": {"max_weight": c["max"], "counters": 64, "capacity": 16, "shards": c["shards"], "qsize": c["qsize"], "pool": c["pool"],
                              "buffer": c["buffer"], "hash": c["hash"], "clock0": c["clock0"], "wf_base": c["wf_base"], "wf_mod": c["wf_mod"],
                              "wf_ttl": c["wf_ttl"], "default_weight_fn": False},
                      "programs": scen_json["programs"],
                      "yield_sites": gen.get("yield_sites", SYS_SITES),
                      "freq": [[int(k), int(v)] for k, v in est.items() if int(v) > 0],
                      "schedule": {"kind": "list", "steps": h, "then_drain": True}}
            f.write(json.dumps(sc) + "\n")
    info["replayed"] = len(hists)
    return info
