"""Direction 1 (specification -> implementation): TLC enumerates / samples behaviours of a bounded instance,
each behaviour's schedule becomes one scenario that the harness replays step by step against the real code."""
import json, os, random, re, subprocess, time

SPEC = "/verif/spec"


def replay_lines(out):
    res = []
    for m in re.finditer(r'<<"REPLAY", "(.*?)">>\s*$', out, re.M):
        js = m.group(1).replace('\\"', '"').replace('\\\\', '\\')
        try:
            res.append(json.loads(js))
        except Exception:
            pass
    return res


def export_schedules(gen, scen_path, workdir, seed):
    os.makedirs(workdir, exist_ok=True)
    sim = f"-simulate num={gen['simulate'][0]} -depth {gen['simulate'][1]} -seed {seed}" if gen.get("simulate") else ""
    cmd = (f"timeout -k 10 {gen.get('timeout', 600)} tlc -workers {gen.get('workers', 8)} {sim} -metadir {workdir}/meta -cleanup "
           f"-noGenerateSpecTE -config {gen['cfg']}.cfg {gen['module']}.tla")
    t = time.time()
    p = subprocess.run(cmd, shell=True, cwd=SPEC, stdout=subprocess.PIPE, stderr=subprocess.STDOUT, text=True)
    out = p.stdout
    open(f"{workdir}/tlc.out", "w").write(out[-200000:])
    hists = replay_lines(out)
    info = {"cfg": gen["cfg"], "behaviours_exported": len(hists), "wall_s": round(time.time() - t, 1), "exhaustive": not gen.get("simulate")}
    if not hists:
        info["error"] = f"TLC exported no behaviour for {gen['cfg']} (rc={p.returncode}); see {workdir}/tlc.out"
        return info
    # distinct schedules only
    uniq = {json.dumps(h): h for h in hists}
    hists = list(uniq.values())
    info["distinct_schedules"] = len(hists)
    if gen.get("sample") and len(hists) > gen["sample"]:
        rnd = random.Random(seed)
        hists = rnd.sample(hists, gen["sample"])
        info["sampled"] = gen["sample"]
    with open(scen_path, "w") as f:
        for i, h in enumerate(hists):
            if gen["kind"] == "ack":
                sc = {"name": f"{gen['cfg']}-{i}", "status": gen["status"], "pollers": gen["pollers"], "steps": h, "seed": 0}
            else:
                sc = dict(gen["scenario"])
                sc["name"] = f"{gen['cfg']}-{i}"
                sc["schedule"] = {"kind": "list", "steps": h, "then_drain": True}
            f.write(json.dumps(sc) + "\n")
    info["replayed"] = len(hists)
    return info
