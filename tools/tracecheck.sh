#!/bin/bash
# usage: tracecheck.sh <TraceSpec (module name in /verif/spec)> <trace.ndjson> <workdir>
# Runs TLC on a recorded trace; prints the REPORT line (JSON) and any TLC error. Exit 0 if TLC consumed the trace.
SPEC="$1"; TRACE_FILE="$2"; WORK="${3:-/verif/work/trace}"
mkdir -p "$WORK"
cd /verif/spec || exit 2
OUT="$WORK/tlc.out"
TRACE="$TRACE_FILE" JAVA_TOOL_OPTIONS="-Xss1g -Xmx4g -XX:ActiveProcessorCount=2 -Dtlc2.tool.queue.IStateQueue=StateDeque" \
  timeout -k 10 "${TRACE_TIMEOUT:-900}" tlc -workers 1 -metadir "$WORK/meta" -cleanup -noGenerateSpecTE \
  -config "$SPEC.cfg" "$SPEC.tla" > "$OUT" 2>&1
RC=$?
python3 - "$OUT" "$WORK/report.json" <<'PY'
import sys,re,json
out=open(sys.argv[1]).read()
# the REPORT value is printed as a TLA+ tuple: <<"REPORT", "json string">>
m=re.search(r'<<"REPORT", "(.*)">>\s*$', out, re.M)
if m:
    js=m.group(1).encode().decode('unicode_escape') if '\\' in m.group(1) else m.group(1)
    try:
        rep=json.loads(js)
    except Exception as e:
        js=m.group(1).replace('\\"','"').replace('\\\\','\\')
        rep=json.loads(js)
    json.dump(rep,open(sys.argv[2],'w'))
    print("REPORT-OK steps=%s runs=%s ndiv=%s nverd=%s unmodelled=%s"%(rep.get('steps'),rep.get('runs'),rep.get('ndiv'),rep.get('nverd'),rep.get('unmodelled')))
else:
    print("NO-REPORT")
    idx=out.find("Error:")
    print(out[idx:idx+3000] if idx>=0 else out[-2000:])
PY
exit $RC
