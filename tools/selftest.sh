#!/bin/bash
# Applies every seeded change (and the negative controls) to /repo, runs the quick check of its property, reverts.
# Writes /verif/seeded/RESULTS.json. NOT a property check: a detection / false-alarm measurement of the machinery itself.
cd /verif
OUT=/verif/seeded/RESULTS.json
echo "[" > $OUT.tmp
first=1
run_one() { # patch prop kind
  local patch="$1" prop="$2" kind="$3"
  cd /repo && { git apply "$patch" 2>/dev/null || patch -p1 --fuzz=3 -s < "$patch" || { echo "  patch does not apply: $patch"; git checkout -- .; return; }; }
  cd /verif
  local log=/verif/work/selftest-$(basename $(dirname $patch))-$(basename $patch .patch)-$prop.log
  tools/check.sh "$prop" quick > "$log" 2>&1; local rc=$?
  cd /repo && git reset -q HEAD -- . && git checkout -- . && git clean -fdq -- src tests 2>/dev/null
  cd /verif
  local first_v=$(grep -m1 "^VIOLATION" "$log" | cut -c1-300 | sed 's/"/\\"/g')
  local others=$(python3 -c "import json;print(json.dumps(json.load(open('/verif/evidence/$prop.json'))['coverage']['other_property_verdicts']))")
  [ $first -eq 1 ] || echo "," >> $OUT.tmp; first=0
  echo "{\"patch\": \"$patch\", \"property\": \"$prop\", \"kind\": \"$kind\", \"exit\": $rc, \"first_violation\": \"$first_v\", \"other_property_verdicts\": $others}" >> $OUT.tmp
  echo "  $kind $prop $(basename $(dirname $patch))/$(basename $patch) exit=$rc"
}
for d in /verif/seeded/C*/; do p=$(basename $d); [ -f $d/patch.diff ] && run_one $d/patch.diff ${p:0:3} seeded; done
run_one /verif/mutants/N01_NEG_tie_lighter_first.patch C06 negative-control
run_one /verif/mutants/N03_NEG_skip_index_delete.patch C10 negative-control
run_one /verif/mutants/N03_NEG_skip_index_delete.patch C04 negative-control
run_one /verif/mutants/M08_NEG_clock_ge.patch C09 negative-control
run_one /verif/mutants/M08_NEG_clock_ge.patch C10 negative-control
echo "]" >> $OUT.tmp; mv $OUT.tmp $OUT
# restore clean evidence
for p in C01 C02 C03 C04 C05 C06 C07 C08 C09 C10 C11 C12 C13 C14 C15 C16 C17 C18; do tools/check.sh $p quick > /dev/null 2>&1 || echo "CLEAN TREE CHECK FAILED: $p"; done
echo SELFTEST-DONE
