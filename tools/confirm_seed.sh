#!/bin/bash
# usage: confirm_seed.sh <prop> [suffix]  -- confirms a sub-agent's change in its scratch worktree /tmp/wt-<prop><suffix> and stores it under /verif/seeded/
P="$1"; SUF="${2:-}"; WT=${WTDIR:-/tmp/wt-$P$SUF}; OUT=/verif/seeded/$P$SUF
[ -d "$WT/mutant_out" ] || { echo "no mutant_out in $WT"; exit 1; }
mkdir -p "$OUT"
cd "$WT" || exit 1
export CARGO_TARGET_DIR=$WT/target CARGO_NET_OFFLINE=true
DEMO=$(python3 -c "import json;print(json.load(open('mutant_out/meta.json'))['demo'])")
DEMOCMD=$(python3 -c "import json;print(json.load(open('mutant_out/meta.json'))['demo_cmd'])")
echo "demo=$DEMO cmd=$DEMOCMD"
# 1. regenerate the patch from the tree (source only) and check it equals the delivered one in substance
git diff -- src > /tmp/confirm-$P.diff
# 2. suite with the change, demo moved aside
DEMOPATH=$(git status --porcelain | grep -E "^\?\? (tests|examples)/" | awk '{print $2}' | head -1)
mkdir -p /tmp/confirm-aside-$P && mv $DEMOPATH /tmp/confirm-aside-$P/ 
SUITE=$(cargo test --offline 2>&1 | grep -E "^test result" | tr '\n' ' ')
mv /tmp/confirm-aside-$P/$(basename $DEMOPATH) $DEMOPATH
echo "suite with change: $SUITE"
# 3. demo with the change
WITH=$(timeout 600 bash -c "$DEMOCMD" 2>&1 | grep -E "^test result|panicked|FAILED" | head -3 | tr '\n' ' ')
echo "demo with change: $WITH"
# 4. demo without the change
git apply -R /tmp/confirm-$P.diff
WITHOUT=$(timeout 600 bash -c "$DEMOCMD" 2>&1 | grep -E "^test result" | tr '\n' ' ')
git apply /tmp/confirm-$P.diff
echo "demo without change: $WITHOUT"
cp /tmp/confirm-$P.diff "$OUT/patch.diff"; cp "$DEMOPATH" "$OUT/"; 
python3 - "$OUT" "$P" "$SUITE" "$WITH" "$WITHOUT" <<'PY'
import json,sys
out,p,suite,w,wo=sys.argv[1:6]
m=json.load(open('mutant_out/meta.json'))
meta={"property":p,"summary":m.get("summary"),"needs":m.get("needs"),"demo":m.get("demo"),"demo_cmd":m.get("demo_cmd"),
      "author":"independent sub-agent given only the property text and a scratch worktree",
      "confirmed":{"suite_with_change":suite,"demo_with_change":w,"demo_without_change":wo}}
json.dump(meta,open(out+"/meta.json","w"),indent=1)
PY
