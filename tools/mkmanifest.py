#!/usr/bin/env python3
"""Regenerates /verif/MANIFEST.json from tools/plans.py and the texts below."""
import json, subprocess, sys
sys.path.insert(0, "/verif/tools")
from plans import PLANS
from manifest_texts import TEXTS, NOT_APPLICABLE

props = [json.loads(l)["id"] for l in open("/verif/properties.jsonl")]
hook_commits = subprocess.run("git -C /repo log --format=%h --grep='^verif hooks' --reverse", shell=True, capture_output=True, text=True).stdout.split()
checks = []
for p in props:
    if p not in PLANS or p not in TEXTS:
        continue
    t = TEXTS[p]
    checks.append({
        "property_id": p,
        "quick_cmd": f"tools/check.sh {p} quick",
        "thorough_cmd": f"tools/check.sh {p} thorough",
        "evidence_file": f"/verif/evidence/{p}.json",
        "replay_cmd_template": "tools/replay.sh {path}",
        "engine": t.get("engine", "tla-trace"),
        "level_claimed": {"category": "model_checking", "text": t["level"], "design_ref": t.get("ref", "DESIGN.md section 5")},
        "level_note": t["note"],
        "technique": t["technique"],
    })
na = [{"property_id": p, "reason": NOT_APPLICABLE.get(p, "check not built yet (work in progress; see DESIGN.md section 5)")}
      for p in props if p not in {c["property_id"] for c in checks}]
m = {
    "version": 1,
    "setup_cmd": "cd /verif/harness && cargo build --offline",
    "hooks": {
        "guard": "cached_verif",
        "enable": "rustflags --cfg cached_verif in /verif/harness/.cargo/config.toml; the harness crate depends on /repo by path, so every check rebuilds /repo's working tree with the hooks on",
        "baseline_off_cmd": "cd /repo && cargo test --workspace --no-fail-fast --offline",
        "source_commits": hook_commits,
        "add_only": True,
    },
    "engines": [
        {"name": "tla-trace", "path": "/verif/tools/check.py", "serves_properties": [c["property_id"] for c in checks],
         "kind_free_text": "TLC model checking of /verif/spec/*.tla + deterministic-scheduler harness (/verif/harness) recording every step of the real cache + TLC trace validation (conformance per step and the property's judge per step)"},
    ],
    "checks": checks,
    "notes": "All verdicts are computed by TLC from TLA+ definitions in /verif/spec (CacheDJudge.tla and the module-specific judges); the Rust harness only drives and records. Known findings: /verif/known_findings.json.",
    "not_applicable": na,
}
json.dump(m, open("/verif/MANIFEST.json", "w"), indent=1)
print("checks:", [c["property_id"] for c in checks], "not_applicable:", [n["property_id"] for n in na])
