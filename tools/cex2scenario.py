#!/usr/bin/env python3
"""cex2scenario.py <module> <cfg with an invariant the model violates> <export cfg of the same instance> <name> <out.ndjson>

Turns a TLC counterexample (the `last` variable of every state: who moved, from which site) into a harness scenario
with an explicit schedule, so that the behaviour TLC found on the specification is replayed on the real code."""
import json, re, subprocess, sys
sys.path.insert(0, "/verif/tools")
from b1 import SYS_SITES

module, cfg, export_cfg, name, out = sys.argv[1:6]
SPEC = "/verif/spec"
p = subprocess.run(f"timeout -k 10 1200 tlc -workers 8 -metadir /verif/work/cex/meta -cleanup -noGenerateSpecTE -config {cfg}.cfg {module}.tla",
                   shell=True, cwd=SPEC, stdout=subprocess.PIPE, stderr=subprocess.STDOUT, text=True)
text = p.stdout
if "is violated" not in text:
    print("no counterexample", text[-500:]); sys.exit(1)
steps = []
for m in re.finditer(r'/\\ last = \[actor \|-> "([^"]*)", site \|-> "([^"]*)"\]', text):
    a, s = m.group(1), m.group(2)
    if a == "":
        continue
    steps.append({"a": a, "s": s, "d": 1 if a == "env" else 0})
p2 = subprocess.run(f"timeout -k 10 300 tlc -workers 1 -simulate num=1 -depth 5 -metadir /verif/work/cex/meta2 -cleanup -noGenerateSpecTE -config {export_cfg}.cfg {module}.tla",
                    shell=True, cwd=SPEC, stdout=subprocess.PIPE, stderr=subprocess.STDOUT, text=True)
m = re.search(r'<<"SCENARIO", "(.*?)">>\s*$', p2.stdout, re.M)
sj = json.loads(m.group(1).replace('\\"', '"').replace('\\\\', '\\'))
c = sj["cfg"]
est = sj.get("est", {})
if isinstance(est, list):
    est = {str(i + 1): v for i, v in enumerate(est)}
sc = {"name": name,
      "cfg": {"max_weight": c["max"], "counters": 64, "capacity": 16, "shards": c["shards"], "qsize": c["qsize"], "pool": c["pool"], "buffer": c["buffer"],
              "hash": c["hash"], "clock0": c["clock0"], "wf_base": c["wf_base"], "wf_mod": c["wf_mod"], "wf_ttl": c["wf_ttl"], "default_weight_fn": False},
      "programs": sj["programs"], "yield_sites": SYS_SITES, "freq": [[int(k), int(v)] for k, v in est.items() if int(v) > 0],
      "schedule": {"kind": "list", "steps": steps, "then_drain": True}}
open(out, "a").write(json.dumps(sc) + "\n")
print(name, "steps", len(steps))
