#!/bin/bash
# usage: tools/replay.sh <replay.json>   -- re-runs the recorded scenario against the real code and re-validates the trace
set -e
R="$1"; W=/verif/work/replay-run; mkdir -p "$W"
cd /verif/harness && cargo build --offline >/dev/null 2>&1
python3 - "$R" "$W/scen.ndjson" <<'PY'
import json,sys
r=json.load(open(sys.argv[1]))
sc=r["scenario"]
if r.get("schedule"):
    sc["schedule"]={"kind":"list","steps":r["schedule"],"then_drain":True}
open(sys.argv[2],"w").write(json.dumps(sc)+"\n")
print("property:",r.get("property"),"verdict:",r.get("verdict"))
PY
/verif/harness/target/debug/cached-verif-harness run --scenarios "$W/scen.ndjson" --out "$W/trace.ndjson" --show-panics || true
/verif/tools/tracecheck.sh TraceCacheD "$W/trace.ndjson" "$W/tc"
python3 -c "
import json;r=json.load(open('$W/tc/report.json'))
for v in r['verdicts']: print(v)
for d in r['div'][:10]: print('DIVERGENCE',d)"
