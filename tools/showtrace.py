#!/usr/bin/env python3
import sys,json
f,run,lo,hi=sys.argv[1],int(sys.argv[2]),int(sys.argv[3]),int(sys.argv[4])
for l in open(f):
    r=json.loads(l)
    if r['run']!=run or not (lo<=r['i']<=hi): continue
    s=r['s']
    print(r['i'],r['actor'],r['site'],'->',r['next'],r['narg'],'|',r['op']['op'],'k',r['op']['k'],'v',r['op']['v'],'w',r['op']['w'],'ttl',r['op']['ttl'],'rm',r['op']['rm'],'ref',r['op']['ref'],'| ret',r['ret']['st'],r['ret']['v'],r['ret']['ack'],'|',[(e['e'],e['f']) for e in r['ev']])
    print('     now',s['now'],'used',s['used'],'/',s['max'],'q',s['qlen'],'store',[(e['k'],e['v'],e['id'],e['exp'],int(e['soft'])) for e in s['store']],'kw',[(e['id'],e['k'],e['w']) for e in s['kw']],'ttl',[[ (e['id'],e['exp']) for e in sh] for sh in s['ttl']],'stats',s['stats'])
