#!/bin/bash
cd /verif && exec python3 /verif/tools/check.py "$@"
