"""Shared execution engine of the checks (see check.py)."""
import json, os, shutil, time

from check import (build_harness, tlc_mc, harness_gen, harness_run, trace_check, load_known, scenario_of_run,
                   log, WORK, VERIF)


def brief_scenario(sc):
    progs = {c: [" ".join(f"{k}={v}" for k, v in op.items()
                          if k in ("op", "k", "v", "w", "ttl", "rm", "var", "ks", "ref") and v not in (-1, "", [], False, 0))
                 for op in p[:6]] for c, p in sc["programs"].items()}
    return {"name": sc["name"], "cfg": {k: sc["cfg"][k] for k in ("max_weight", "shards", "qsize", "pool", "buffer", "hash", "counters")},
            "first_ops": progs, "schedule": {k: v for k, v in sc["schedule"].items() if k != "steps"}}


def write_replay(prop, tag, scen_path, run_no, verdict, extra=None):
    sc = scenario_of_run(scen_path, run_no) if scen_path else None
    path = f"{WORK}/replay/{prop}-{tag}-run{run_no}.json"
    json.dump({"property": prop, "verdict": verdict, "scenario": sc, "extra": extra}, open(path, "w"))
    return path


def execute(prop, tier, plan, seed, wdir):
    res = {"violations": [], "known_lines": [], "tool_errors": [], "assumptions": list(plan.get("assumptions", []))}
    cov = {"states": 0, "transitions": 0, "traces_validated_against_impl": 0, "samples": [], "impl_steps_validated": 0,
           "divergences": 0, "divergence_samples": [], "mc_instances": [], "impl_batches": [], "verdict_digest": [],
           "known_findings_reproduced": {}, "other_property_verdicts": {}, "runs_aborted": 0, "unmodelled_sites": []}
    res["coverage"] = cov

    import glob
    for stale in glob.glob(f"{WORK}/diverged/{prop}-*"):
        try:
            os.remove(stale)
        except OSError:
            pass
    cov["harness_build_s"] = round(build_harness(), 1)
    known = [k for k in load_known() if k.get("property") == prop and k.get("kind") == "known"]
    known_ids = {k["id"] for k in known}
    reproduced = {k["id"]: 0 for k in known}

    # ---- (A) the specification itself
    for inst in plan.get("mc", {}).get(tier, []):
        r = tlc_mc(inst["module"], inst["cfg"], inst.get("workers", 8), inst.get("timeout", 600), f"{wdir}/mc-{inst['cfg']}",
                   simulate=inst.get("simulate"))
        rec = {k: r.get(k) for k in ("module", "cfg", "generated", "distinct", "depth", "wall_s", "ok", "violated", "actions_never_taken")}
        rec["exhaustive"] = inst.get("simulate") is None and r.get("rc") == 0
        rec["constants"] = inst.get("constants", "")
        cov["mc_instances"].append(rec)
        cov["states"] += r.get("distinct", 0) or 0
        cov["transitions"] += r.get("generated", 0) or 0
        if inst.get("expect_violation"):
            # an instance of the specification WITHOUT a repair: the model must reproduce the defect (anti-vacuity)
            if inst["expect_violation"] not in r.get("violated", []):
                res["tool_errors"].append(f"{inst['cfg']}: expected the model to violate {inst['expect_violation']} (vacuity control)")
        elif not r["ok"]:
            res["tool_errors"].append(f"specification instance {inst['cfg']} failed or timed out (rc={r['rc']}, violated={r['violated']}); see {wdir}/mc-{inst['cfg']}/tlc.out")

    # ---- (B)+(C) implementation traces
    batches = []
    for b in plan.get("profiles", {}).get(tier, []):
        scen = f"{wdir}/scen-{b['profile']}.ndjson"
        harness_gen(b["profile"], seed + b.get("seed_offset", 0), b["count"], scen)
        batches.append((b["profile"], scen, b))
    for f in plan.get("fixed", {}).get(tier, []):
        batches.append((os.path.basename(f).replace(".ndjson", ""), f"{VERIF}/{f}", {"fixed": True}))
    for g in plan.get("pygen", {}).get(tier, []):
        import pygen
        scen = f"{wdir}/scen-{g['name']}.ndjson"
        getattr(pygen, g["fn"])(scen, seed + g.get("seed_offset", 0), g["count"])
        batches.append((g["name"], scen, {"runner": g.get("runner", "run"), "trace_spec": g.get("trace_spec")}))
    for gen in plan.get("b1", {}).get(tier, []):
        from b1 import export_schedules
        scen = f"{wdir}/scen-b1-{gen['cfg']}.ndjson"
        info = export_schedules(gen, scen, f"{wdir}/b1-{gen['cfg']}", seed)
        cov.setdefault("b1_exports", []).append(info)
        if info.get("error"):
            res["tool_errors"].append(info["error"])
            continue
        batches.append((f"b1-{gen['cfg']}", scen, {"b1": True, "runner": "ackrun" if gen["kind"] == "ack" else "run", "trace_spec": gen.get("trace_spec")}))

    for d in plan.get("direct", {}).get(tier, []):
        batches.append((d["name"], None, {"direct": d["cmd"].format(seed=seed), "trace_spec": d.get("trace_spec")}))

    # split large scenario batches so that harness runs and TLC trace validations proceed in parallel
    chunked = []
    for name, scen, b in batches:
        if scen and not b.get("direct"):
            lines = [l for l in open(scen) if l.strip()]
            size = plan.get("chunk", 8 if tier == "quick" else 30)
            if len(lines) > size:
                for ci in range(0, len(lines), size):
                    cpath = f"{scen}.{ci // size}"
                    open(cpath, "w").writelines(lines[ci:ci + size])
                    chunked.append((f"{name}.{ci // size}", cpath, b))
                continue
        chunked.append((name, scen, b))

    def process(item):
        name, scen, b = item
        out = {"name": name, "scen": scen, "b": b, "violations": [], "tool_errors": [], "batch": None, "rep": None, "aborted": 0}
        trace = f"{wdir}/trace-{name}.ndjson"
        hang = None
        if b.get("direct"):
            from check import run as shrun, BIN
            rc, text = shrun(f"{BIN} {b['direct']} --out {trace}", b.get("run_timeout", 1800))
            summary = []
            for line in text.splitlines():
                if line.startswith("SUMMARY "):
                    summary = json.loads(line[8:])
                elif line.startswith("STRESS "):
                    info = json.loads(line[7:])
                    summary = [{"run": 1, "name": "stress", "steps": info.get("ops", 0), "hang": info.get("stall"), "stuck": False}]
                    if info.get("stall"):
                        hang = {"scenario": {"name": "stress: " + str(info.get("stall"))}, "schedule": []}
            if rc == 4:
                path = f"{WORK}/replay/{prop}-{name}-panic.json"
                json.dump({"property": prop, "verdict": "panic", "cmd": b["direct"], "output": text[-2000:]}, open(path, "w"))
                out["violations"].append({"replay": path, "what": "the code under test panicked: " + text[-300:].strip().replace(chr(10), ' ')})
                return out
        else:
            lockfile = f"{wdir}/locks-{name}.ndjson" if plan.get("locks") and b.get("runner", "run") == "run" else None
            rc, summary, hang, text = harness_run(scen, trace, b.get("run_timeout", 900), b.get("runner", "run"), locks=lockfile)
            if rc == 124 and hang is None:
                # the harness itself never came back (15 minutes for a batch that takes seconds): threads of the code under test are
                # wedged in a way the driver's own hang detection could not unwind
                hang = {"scenario": {"name": f"batch {name}: the harness did not terminate (scenarios: {scen})"}, "schedule": []}
                summary = summary or [{"run": 0, "name": name, "steps": 0, "hang": "the harness did not terminate", "stuck": False}]
        batch = {"batch": name, "runs": len(summary), "steps": sum(s["steps"] for s in summary), "stuck": sum(1 for s in summary if s["stuck"]),
                 "imprecise": sum(1 for s in summary if s.get("imprecise"))}
        out["batch"] = batch
        if hang is not None:
            batch["hang"] = hang["scenario"]["name"]
            if plan.get("hang_is_violation"):
                path = f"{WORK}/replay/{prop}-{name}-hang.json"
                json.dump({"property": prop, "verdict": "hang", "scenario": hang["scenario"], "schedule": hang["schedule"]}, open(path, "w"))
                out["violations"].append({"replay": path, "what": "a granted step never reached its next schedule point and no other thread could release it (hang): " + str([s.get("hang") for s in summary if s.get("hang")][:1])})
            else:
                out["aborted"] = 1
        elif rc != 0:
            out["tool_errors"].append(f"harness run failed for batch {name} (rc={rc}): {text[-400:]}")
            return out
        trc, rep, tout, twall = trace_check(b.get("trace_spec") or plan.get("trace_spec", "TraceCacheD"), trace, f"{wdir}/tc-{name}", b.get("trace_timeout", 1800))
        batch["trace_check_s"] = round(twall, 1)
        if rep is None:
            out["tool_errors"].append(f"TLC did not consume the trace of batch {name}: {tout[-600:]}")
            return out
        out["rep"] = rep
        if b.get("b1"):
            try:
                batch["schedules_not_followed_to_the_end"] = sum(1 for line in open(trace) if '"E_Infeasible"' in line)
            except OSError:
                pass
        try:
            if rep.get("ndiv") and not os.environ.get("VERIF_NO_KEEP"):
                # a step of the code the specification did not predict: keep the trace for inspection (never a verdict)
                os.makedirs(f"{WORK}/diverged", exist_ok=True)
                shutil.copy(trace, f"{WORK}/diverged/{prop}-{name}.ndjson")
            if not plan.get("keep_traces"):
                os.remove(trace)
        except OSError:
            pass
        return out

    from concurrent.futures import ThreadPoolExecutor
    with ThreadPoolExecutor(max_workers=plan.get("parallel", 7)) as pool:
        results = list(pool.map(process, chunked))

    for out in results:
        name, scen, b = out["name"], out["scen"], out["b"]
        res["violations"] += out["violations"]
        res["tool_errors"] += out["tool_errors"]
        cov["runs_aborted"] += out["aborted"]
        if out["batch"] is None:
            continue
        batch = out["batch"]
        cov["runs_imprecise"] = cov.get("runs_imprecise", 0) + batch["imprecise"]
        if "schedules_not_followed_to_the_end" in batch:
            cov["b1_schedules_not_followed_to_the_end"] = cov.get("b1_schedules_not_followed_to_the_end", 0) + batch["schedules_not_followed_to_the_end"]
        rep = out["rep"]
        if rep is None:
            cov["impl_batches"].append(batch)
            continue
        batch.update({"validated_runs": rep["runs"], "validated_steps": rep["steps"], "divergent_steps": rep["ndiv"]})
        cov["impl_batches"].append(batch)
        cov["traces_validated_against_impl"] += rep["runs"]
        cov["impl_steps_validated"] += rep["steps"]
        cov["divergences"] += rep["ndiv"]
        cov["steps_outside_model_range"] = cov.get("steps_outside_model_range", 0) + rep.get("oor", 0)
        cov["divergence_samples"] += rep["div"][:3]
        if rep.get("lsub"):
            lg = cov.setdefault("lock_grain", {"sub_steps": 0, "spans_checked_as_one_specification_step": 0, "spans_with_several_effects_(state-level_judges_only_afterwards)": 0})
            lg["sub_steps"] += rep["lsub"]
            lg["spans_checked_as_one_specification_step"] += rep.get("lexact", 0)
            lg["spans_with_several_effects_(state-level_judges_only_afterwards)"] += rep.get("lsplit", 0)
        cov["unmodelled_sites"] = sorted(set(cov["unmodelled_sites"]) | set(rep.get("unmodelled", [])))
        for site, n in (rep.get("sites") or {}).items():
            cov.setdefault("impl_steps_per_site", {})[site] = cov.get("impl_steps_per_site", {}).get(site, 0) + n
        if len(cov["samples"]) < 4:
            sc = scenario_of_run(scen, 1) if scen else {"direct": b.get("direct"), "summary": batch}
            if sc:
                cov["samples"].append(brief_scenario(sc) if "cfg" in sc else sc)
        for v in rep["verdicts"]:
            if v["prop"] != prop:
                key = f"{v['prop']}:{v['kind']}:{v['finding']}"
                cov["other_property_verdicts"][key] = cov["other_property_verdicts"].get(key, 0) + v["n"]
                continue
            cov["verdict_digest"].append({k: v[k] for k in ("kind", "finding", "what", "n", "run", "i")} | {"batch": name})
            if v["kind"] == "known" and v["finding"] in known_ids:
                reproduced[v["finding"]] += v["n"]
                continue
            what = v["what"] if v["kind"] == "violation" else f"unlisted finding {v['finding']}: {v['what']}"
            path = write_replay(prop, name, scen, v["run"], v, extra=b.get("direct"))
            res["violations"].append({"replay": path, "what": f"{what} (batch {name}, run {v['run']}, step {v['i']}, {v['n']} step(s))"})
    cov["divergence_samples"] = cov["divergence_samples"][:12]
    cov["verdict_digest"] = cov["verdict_digest"][:40]

    if plan.get("locks"):
        lock_analysis(prop, plan, wdir, seed, res, cov)
    for st in plan.get("stress", {}).get(tier, []):
        from check import run as shrun, BIN
        rc, out = shrun(f"{BIN} stress --seed {seed} --rounds {st['rounds']} --threads {st['threads']} --ops {st['ops']} --timeout-ms {st.get('timeout_ms', 20000)} {st.get('args', '')}", 3600)
        info = {}
        for line in out.splitlines():
            if line.startswith("STRESS "):
                info = json.loads(line[7:])
        cov.setdefault("stress", []).append(info | {"threads": st["threads"], "ops_per_thread": st["ops"]})
        if rc == 3 or info.get("stall"):
            path = f"{WORK}/replay/{prop}-stress.json"
            json.dump({"property": prop, "verdict": "stall", "cmd": f"stress --seed {seed} ...", "info": info}, open(path, "w"))
            res["violations"].append({"replay": path, "what": "free-running stress stalled (deadlock or lost acknowledgement): " + str(info.get("stall"))})
        elif rc != 0:
            res["tool_errors"].append(f"stress run failed rc={rc}: {out[-300:]}")
    cov["known_findings_reproduced"] = reproduced
    for k in known:
        n = reproduced[k["id"]]
        res["known_lines"].append(f"KNOWN-FINDING: property={prop} {k['id']} {k['signature']} "
                                  f"[{'reproduced on ' + str(n) + ' step(s) in this run' if n else 'not reproduced in this run'}]")
    if not cov["samples"]:
        cov["samples"].append({"note": "no implementation scenario in this tier", "mc": [m["cfg"] for m in cov["mc_instances"]]})
    cov["exhaustive"] = False
    cov["rule"] = plan.get("rule", "")
    return res


def lock_analysis(prop, plan, wdir, seed, res, cov):
    """C18: lock programs extracted from the recorded lock events -> Locks.tla (TLC) -> deadlock-freedom of all interleavings."""
    import glob, subprocess, re
    sys_path = f"{VERIF}/tools"
    import sys
    sys.path.insert(0, sys_path)
    from locks import extract
    merged = f"{wdir}/locks-all.ndjson"
    with open(merged, "w") as out:
        offset = 0
        for f in sorted(glob.glob(f"{wdir}/locks-*.ndjson")):
            if f == merged:
                continue
            mx = 0
            for line in open(f):
                try:
                    r = json.loads(line)
                except Exception:
                    continue      # a run that hung leaves a truncated last line
                mx = max(mx, r["run"])
                r["run"] += offset
                out.write(json.dumps(r) + "\n")
            offset += mx
    ex = extract(merged)
    progs = f"{wdir}/lock-programs.json"
    json.dump(ex, open(progs, "w"))
    ref = json.load(open(f"{VERIF}/spec/locks_reference.json"))["programs"]
    refset = {(p["role"], json.dumps(p["ops"])) for p in ref}
    new = [p for p in ex["programs"] if (p["role"], json.dumps(p["ops"])) not in refset]
    seen = {(p["role"], json.dumps(p["ops"])) for p in ex["programs"]}
    cov["lock_events"] = ex["events"]
    cov["critical_sections"] = ex["sections"]
    cov["lock_programs_extracted"] = [{"role": p["role"], "seen": p["seen"], "where": p["where"],
                                       "ops": " ".join(f"{o[0]}:{o[1]}{'w' if o[2] else 'r'}" for o in p["ops"])} for p in ex["programs"]]
    cov["lock_programs_not_in_reference"] = [c for c, p in zip(cov["lock_programs_extracted"], ex["programs"]) if (p["role"], json.dumps(p["ops"])) not in refset]
    cov["reference_programs_not_seen"] = len([1 for p in ref if (p["role"], json.dumps(p["ops"])) not in seen])
    if not ex["programs"]:
        res["tool_errors"].append("no nested lock program was extracted: the lock hooks reported nothing (vacuous)")
        return
    about = plan.get("locks_about")
    if about:
        # the question is narrower than C18's: is there a wait cycle that needs a critical section of the sites `about` (e.g. the
        # shutdown sequence)? The sections recorded in this run are combined with the reference sections of the unchanged tree;
        # a cycle counts only if it disappears when the sections of those sites are left out.
        have = {(p["role"], json.dumps(p["ops"])) for p in ex["programs"]}
        allp = ex["programs"] + [p for p in ref if (p["role"], json.dumps(p["ops"])) not in have]
        def run_locks(programs, tag):
            path = f"{wdir}/lock-programs-{tag}.json"
            json.dump({"programs": programs}, open(path, "w"))
            os.makedirs(f"{wdir}/mc-locks-{tag}", exist_ok=True)
            env = dict(os.environ); env["LOCKS"] = path
            t = time.time()
            pr = subprocess.run(f"timeout -k 10 600 tlc -workers 8 -metadir {wdir}/mc-locks-{tag}/meta -cleanup -noGenerateSpecTE -config MC_LocksTrace.cfg MC_LocksTrace.tla",
                                shell=True, cwd=f"{VERIF}/spec", env=env, stdout=subprocess.PIPE, stderr=subprocess.STDOUT, text=True)
            open(f"{wdir}/mc-locks-{tag}/tlc.out", "w").write(pr.stdout)
            m = re.search(r"(\d+) states generated, (\d+) distinct states found", pr.stdout)
            return {"module": "MC_LocksTrace", "cfg": "MC_LocksTrace", "constants": f"5 thread slots x ({tag}) critical sections recorded in this run + reference sections, all interleavings",
                    "generated": int(m.group(1)) if m else None, "distinct": int(m.group(2)) if m else None, "wall_s": round(time.time() - t, 1),
                    "ok": "No error has been found" in pr.stdout, "violated": re.findall(r"Invariant (\w+) is violated", pr.stdout), "exhaustive": True}, pr.stdout
        rec, out = run_locks(allp, "all")
        cov["mc_instances"].append(rec)
        cov["states"] += rec["distinct"] or 0
        cov["transitions"] += rec["generated"] or 0
        cov["critical_sections_of_" + about] = [c for c in cov["lock_programs_extracted"] if c["where"].startswith(about)]
        if rec["violated"]:
            rec2, _ = run_locks([p for p in allp if not p.get("where", "").startswith(about)], "without-" + about)
            cov["mc_instances"].append(rec2)
            if not rec2["ok"] and rec2["violated"]:
                # the cycle (or re-acquisition) does not need the sections of those sites: a background thread can wedge on its own, and
                # the sites in question (e.g. shutdown) then block on the locks it holds
                path = f"{WORK}/replay/{prop}-lockorder.json"
                idx = out.find("Error: Invariant")
                json.dump({"property": prop, "verdict": "potential deadlock", "violated": rec["violated"], "programs": allp,
                           "tlc_counterexample": out[idx:idx + 6000]}, open(path, "w"), indent=1)
                what = ("a cycle of lock / queue waits is reachable among the recorded critical sections" if "NoDeadlock" in rec["violated"]
                        else "a thread re-acquires a lock it already holds (blocks for ever once a writer is queued in between)")
                res["violations"].append({"replay": path, "what": what + f": the threads involved never release what {about}* needs, so that call blocks "
                                          f"(new sections: {[c['ops'] for c in cov['lock_programs_not_in_reference']][:3]})"})
            elif rec2["ok"]:
                path = f"{WORK}/replay/{prop}-lockorder.json"
                idx = out.find("Error: Invariant")
                json.dump({"property": prop, "verdict": "potential deadlock", "violated": rec["violated"], "programs": allp,
                           "tlc_counterexample": out[idx:idx + 6000]}, open(path, "w"), indent=1)
                res["violations"].append({"replay": path, "what": f"a cycle of lock waits that involves a critical section of {about}* is reachable: the call can block for ever "
                                          f"(sections of those sites: {[c['ops'] for c in cov['critical_sections_of_' + about]][:4]})"})
        elif not rec["ok"]:
            res["tool_errors"].append(f"Locks.tla run failed; see {wdir}/mc-locks-all/tlc.out")
        return
    cmd = (f"timeout -k 10 600 tlc -workers 8 -metadir {wdir}/mc-locks/meta -cleanup -noGenerateSpecTE -config MC_LocksTrace.cfg MC_LocksTrace.tla")
    os.makedirs(f"{wdir}/mc-locks", exist_ok=True)
    env = dict(os.environ)
    env["LOCKS"] = progs
    t = time.time()
    p = subprocess.run(cmd, shell=True, cwd=f"{VERIF}/spec", env=env, stdout=subprocess.PIPE, stderr=subprocess.STDOUT, text=True)
    out = p.stdout
    open(f"{wdir}/mc-locks/tlc.out", "w").write(out)
    m = re.search(r"(\d+) states generated, (\d+) distinct states found", out)
    rec = {"module": "MC_LocksTrace", "cfg": "MC_LocksTrace", "constants": "5 thread slots (worker, sweeper, consumer, 2 callers) x the extracted programs, all interleavings",
           "generated": int(m.group(1)) if m else None, "distinct": int(m.group(2)) if m else None, "wall_s": round(time.time() - t, 1),
           "ok": "No error has been found" in out, "violated": re.findall(r"Invariant (\w+) is violated", out), "exhaustive": True}
    cov["mc_instances"].append(rec)
    cov["states"] += rec["distinct"] or 0
    cov["transitions"] += rec["generated"] or 0
    if rec["violated"]:
        path = f"{WORK}/replay/{prop}-lockorder.json"
        idx = out.find("Error: Invariant")
        json.dump({"property": prop, "verdict": "potential deadlock", "violated": rec["violated"], "programs": ex["programs"],
                   "tlc_counterexample": out[idx:idx + 6000]}, open(path, "w"), indent=1)
        what = ("a cycle of lock / queue waits is reachable among the critical sections recorded from the code"
                if "NoDeadlock" in rec["violated"] else "a thread re-acquires a lock it already holds")
        res["violations"].append({"replay": path, "what": what + f" (new programs: {[c['ops'] for c in cov['lock_programs_not_in_reference']][:3]})"})
    elif not rec["ok"]:
        res["tool_errors"].append(f"Locks.tla run failed; see {wdir}/mc-locks/tlc.out")
