"""Scenario generators written in Python (small, structured scenario families)."""
import json, random


def ack_random(path, seed, count):
    rnd = random.Random(seed)
    with open(path, "w") as f:
        for i in range(count):
            pollers = {}
            for p in range(rnd.choice([1, 1, 2, 2, 3])):
                n = rnd.randint(1, 4)
                base = 10 * p + 1
                ids, cur = [], base
                for _ in range(n):
                    if rnd.random() < 0.4:
                        cur += 1      # the task polls with a new waker
                    ids.append(cur)
                pollers[f"c{p}"] = ids
            f.write(json.dumps({"name": f"ack-{seed}-{i}", "status": rnd.choice([1, 1, 2, 10, 11, 12, 13]), "pollers": pollers,
                                "steps": [], "seed": rnd.getrandbits(48)}) + "\n")
