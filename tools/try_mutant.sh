#!/bin/bash
# usage: tools/try_mutant.sh <patch> <prop> [tier]  -- applies the patch to /repo, runs the check, reverts
P="$1"; PROP="$2"; TIER="${3:-quick}"
cd /repo && { git apply "$P" 2>/dev/null || patch -p1 --fuzz=3 -s < "$P" || { echo "PATCH DOES NOT APPLY"; git checkout -- .; exit 9; }; }
cd /verif && tools/check.sh "$PROP" "$TIER" 2>&1 | cut -c1-400 | tail -6
python3 - "$PROP" <<'PY'
import json,sys
e=json.load(open(f"/verif/evidence/{sys.argv[1]}.json"))
c=e["coverage"]
print("  divergences:",c["divergences"],"other:",c["other_property_verdicts"])
PY
cd /repo && git reset -q HEAD -- . && git checkout -- . && git clean -fdq -- src tests 2>/dev/null; git status --short | head -3
