#!/bin/bash
# usage: tools/try_mutant.sh <patch> <prop> [tier]  -- applies the patch to /repo, runs the check, reverts
P="$1"; PROP="$2"; TIER="${3:-quick}"
cd /repo && git apply "$P" || { echo "PATCH DOES NOT APPLY"; exit 9; }
cd /verif && tools/check.sh "$PROP" "$TIER" 2>&1 | cut -c1-400 | tail -6
echo "exit=$?"
python3 - "$PROP" <<'PY'
import json,sys
e=json.load(open(f"/verif/evidence/{sys.argv[1]}.json"))
c=e["coverage"]
print("  divergences:",c["divergences"],"other:",c["other_property_verdicts"])
PY
cd /repo && git checkout -- . 
