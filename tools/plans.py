"""Per-property plans: which specification instances TLC checks, which scenario profiles drive the real cache."""

MC_L1 = {"module": "MC_litmus1", "cfg": "MC_litmus1", "constants": "2 callers, put;put;get || put;del on one key, fine grain, QSize 2, MaxWeight 4"}
MC_L1_NOFIX = {"module": "MC_litmus1", "cfg": "MC_litmus1_nofix", "expect_violation": "NoViolation",
               "constants": "same instance with the D3 repair switched off in the model: must be violated (vacuity control)"}

def mix(q, t):
    return {"quick": [{"profile": "mix", "count": q}], "thorough": [{"profile": "mix", "count": t}]}

COMMON_ASSUMPTIONS = [
    "TLC; the hooks (cfg cached_verif) report true values and add no logic",
    "the deterministic scheduler serialises the instrumented threads, so the recorded order is the order of the state changes",
    "the frequency sketch is an input of CacheD.tla (logged estimates); Sketch.tla is bound separately",
]


def profs(spec, mult):
    return [{"profile": name, "count": max(1, int(n * mult)), "seed_offset": 1000 * i} for i, (name, n) in enumerate(spec)]

PROFILES = {
    "C01": [("pressure", 15), ("mix", 8), ("ttl", 5)],
    "C02": [("reads", 12), ("mix", 8), ("burst", 6)],
    "C03": [("seq", 20), ("ttl", 8)],
    "C04": [("burst", 12), ("mix", 8), ("ttl", 5)],
    "C05": [("burst", 15), ("mix", 8), ("pressure", 5)],
    "C06": [("pressure", 25), ("mix", 5)],
    "C07": [("ttl", 10), ("mix", 8), ("burst", 8)],
    "C08": [("ttl", 12), ("mix", 8), ("seq", 6)],
    "C09": [("ttl", 15), ("seq", 8), ("reads", 5)],
    "C10": [("ttl", 20), ("seq", 8)],
    "C11": [("burst", 20), ("mix", 8)],
    "C13": [("shutdown", 25), ("mix", 5)],
    "C15": [("reads", 25), ("mix", 5)],
    "C16": [("stats", 15), ("allhit", 6), ("mix", 6)],
    "C17": [("mix", 10), ("pressure", 6), ("ttl", 6)],
}

PLANS = {}
for p in PROFILES:
    PLANS[p] = {
        "mc": {"quick": [MC_L1], "thorough": [MC_L1, MC_L1_NOFIX]},
        "profiles": {"quick": profs(PROFILES[p], 1), "thorough": profs(PROFILES[p], 8)},
        "trace_spec": "TraceCacheD",
        "assumptions": COMMON_ASSUMPTIONS,
        "rule": "a case is one scenario (configuration + caller programs + schedule seed) run under the deterministic scheduler; "
                "every step of it is one conformance check and one evaluation of the property's judge",
    }
PLANS["C13"]["hang_is_violation"] = True
PLANS["C15"]["hang_is_violation"] = True
