"""Per-property plans: which specification instances TLC checks, which scenario profiles drive the real cache."""

MC_L1 = {"module": "MC_litmus1", "cfg": "MC_litmus1", "constants": "2 callers, put;put;get || put;del on one key, fine grain, QSize 2, MaxWeight 4"}
MC_L1_NOFIX = {"module": "MC_litmus1", "cfg": "MC_litmus1_nofix", "expect_violation": "NoViolation",
               "constants": "same instance with the D3 repair switched off in the model: must be violated (vacuity control)"}

def mix(q, t):
    return {"quick": [{"profile": "mix", "count": q}], "thorough": [{"profile": "mix", "count": t}]}

COMMON_ASSUMPTIONS = [
    "TLC; the hooks (cfg cached_verif) report true values and add no logic",
    "the deterministic scheduler serialises the instrumented threads, so the recorded order is the order of the state changes",
    "the frequency sketch is an input of CacheD.tla (logged estimates); Sketch.tla is bound separately",
]

PLANS = {}
for p in ["C01", "C02", "C03", "C04", "C05", "C06", "C07", "C08", "C09", "C10", "C11", "C13", "C15", "C16", "C17"]:
    PLANS[p] = {
        "mc": {"quick": [MC_L1], "thorough": [MC_L1, MC_L1_NOFIX]},
        "profiles": mix(25, 150),
        "trace_spec": "TraceCacheD",
        "assumptions": COMMON_ASSUMPTIONS,
        "rule": "a case is one scenario (configuration + caller programs + schedule seed) run under the deterministic scheduler; "
                "every step of it is one conformance check and one evaluation of the property's judge",
    }
