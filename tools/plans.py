"""Per-property plans: which specification instances TLC checks, which scenario profiles drive the real cache."""

MC_L1 = {"module": "MC_litmus1", "cfg": "MC_litmus1", "constants": "2 callers, put;put;get || put;del on one key, fine grain, QSize 2, MaxWeight 4"}
MC_L1_NOFIX = {"module": "MC_litmus1", "cfg": "MC_litmus1_nofix", "expect_violation": "NoViolation",
               "constants": "same instance with the D3 repair switched off in the model: must be violated (vacuity control)"}

def mix(q, t):
    return {"quick": [{"profile": "mix", "count": q}], "thorough": [{"profile": "mix", "count": t}]}

COMMON_ASSUMPTIONS = [
    "TLC; the hooks (cfg cached_verif) report true values and add no logic",
    "the deterministic scheduler serialises the instrumented threads, so the recorded order is the order of the state changes",
    "the frequency sketch is an input of CacheD.tla (logged estimates); Sketch.tla is bound separately",
]


def profs(spec, mult):
    return [{"profile": name, "count": max(1, int(n * mult)), "seed_offset": 1000 * i} for i, (name, n) in enumerate(spec)]


def with_spec(bs, spec):
    return [dict(b, trace_spec=spec) for b in bs]

PROFILES = {
    "C01": [("pressure", 12), ("fill", 10), ("mix", 6), ("ttl", 4), ("lg-updrace", 20), ("lg-pressure", 4), ("hugefill", 8)],
    "C02": [("reads", 12), ("mix", 8), ("burst", 6), ("lg-reads", 4)],
    "C03": [("seq", 24), ("ttl", 8), ("lg-seq", 4), ("mix", 6), ("pressure", 5)],
    "C04": [("burst", 12), ("mix", 8), ("ttl", 5), ("lg-burst", 4), ("delrace", 10)],
    "C05": [("burst", 15), ("mix", 8), ("pressure", 5), ("lg-updrace", 10), ("lg-burst", 4)],
    "C06": [("pressure", 18), ("fill", 12), ("mix", 4), ("lg-pressure", 4)],
    "C07": [("ttl", 10), ("mix", 8), ("burst", 8), ("lg-ttl", 4), ("delrace", 20)],
    "C08": [("ttl", 10), ("seq", 14), ("mix", 6), ("lg-ttl", 4)],
    "C09": [("ttl", 15), ("seq", 8), ("reads", 5), ("lg-ttl", 4)],
    "C10": [("ttl", 18), ("seq", 8), ("evictrace", 6), ("lg-ttl", 4), ("lg-evictrace", 3)],
    "C11": [("burst", 20), ("mix", 8), ("lg-burst", 5), ("delrace", 6)],
    "C13": [("shutdown", 10), ("shutrace", 80), ("mix", 3), ("lg-shutdown", 5), ("fill", 3)],
    "C15": [("reads", 14), ("mix", 4), ("lg-reads", 4)],
    "C16": [("stats", 15), ("allhit", 6), ("mix", 6), ("lg-stats", 4)],
    "C17": [("boundary", 20), ("evictrace", 14), ("mix", 5), ("pressure", 3), ("ttl", 3), ("lg-boundary", 4), ("hugefill", 6)],
}

PLANS = {}
for p in PROFILES:
    PLANS[p] = {
        "mc": {"quick": [MC_L1], "thorough": [MC_L1, MC_L1_NOFIX]},
        "profiles": {"quick": profs(PROFILES[p], 3), "thorough": profs(PROFILES[p], 20)},
        "trace_spec": "TraceCacheD",
        "assumptions": COMMON_ASSUMPTIONS,
        "rule": "a case is one scenario (configuration + caller programs + schedule seed) run under the deterministic scheduler; "
                "every step of it is one conformance check and one evaluation of the property's judge",
    }
PLANS["C13"]["hang_is_violation"] = True
PLANS["C11"]["hang_is_violation"] = True     # a wedge between a caller and the worker means queued writes are never applied
PLANS["C13"]["locks"] = True            # lock events of the shutdown runs -> Locks.tla: no wait cycle may involve the shutdown sequence
PLANS["C13"]["locks_about"] = "C_Shut"
# free-running rounds in which shutdown() is called in the middle of the traffic: it must return, and every caller with it
PLANS["C13"]["stress"] = {"quick": [{"rounds": 400, "threads": 6, "ops": 6000, "timeout_ms": 8000, "args": "--shutdown-mid"}],
                          "thorough": [{"rounds": 3000, "threads": 6, "ops": 6000, "timeout_ms": 15000, "args": "--shutdown-mid"}]}
PLANS["C15"]["hang_is_violation"] = True

# ---- C12: the acknowledgement at the grain of its shared-memory accesses (Ack.tla)
ACK_MC = [
    {"module": "MC_Ack_inst", "cfg": "MC_Ack_2x2", "constants": "done || 2 tasks x 2 polls (one changes its waker), all interleavings, safety + <>AllDone under weak fairness"},
]
ACK_U = {"module": "MC_AckU", "cfg": "MC_AckU", "constants": "done || 3 tasks that poll ANY number of times, each poll with either of 2 wakers (finite state space: done runs once), safety"}
ACK_U_NOFIX = {"module": "MC_AckU", "cfg": "MC_AckU_nofix", "expect_violation": "NoViolation", "constants": "the same with the repair of D1 switched off in the model: must be violated (vacuity control)"}
ACK_MC = ACK_MC + [ACK_U]
ACK_MC_T = ACK_MC + [ACK_U_NOFIX] + [
    {"module": "MC_Ack_inst", "cfg": "MC_Ack_2x3", "constants": "done || 2 tasks x 3 polls"},
    {"module": "MC_Ack_inst", "cfg": "MC_Ack_2x2_nofix", "expect_violation": "FlagImpliesStatus",
     "constants": "same with the D1 repair switched off in the model: must be violated (vacuity control)"},
]
PLANS["C12"] = {
    "mc": {"quick": ACK_MC, "thorough": ACK_MC_T},
    "b1": {"quick": [{"kind": "ack", "module": "MC_Ack_inst", "cfg": "MC_Ack_1x3_export", "status": 1, "pollers": {"c0": [1, 1, 2]}, "trace_spec": "TraceAck"},
                     {"kind": "ack", "module": "MC_Ack_inst", "cfg": "MC_Ack_2x1_export", "status": 13, "pollers": {"c0": [1], "c1": [11]}, "trace_spec": "TraceAck"},
                     {"kind": "ack", "module": "MC_Ack_inst", "cfg": "MC_Ack_2x2_export", "status": 1, "pollers": {"c0": [1, 2], "c1": [11, 11]}, "sample": 400, "trace_spec": "TraceAck"}],
           "thorough": [{"kind": "ack", "module": "MC_Ack_inst", "cfg": "MC_Ack_1x3_export", "status": 1, "pollers": {"c0": [1, 1, 2]}, "trace_spec": "TraceAck"},
                        {"kind": "ack", "module": "MC_Ack_inst", "cfg": "MC_Ack_2x1_export", "status": 13, "pollers": {"c0": [1], "c1": [11]}, "trace_spec": "TraceAck"},
                        {"kind": "ack", "module": "MC_Ack_inst", "cfg": "MC_Ack_2x2_export", "status": 1, "pollers": {"c0": [1, 2], "c1": [11, 11]}, "sample": 12000, "trace_spec": "TraceAck"}]},
    "pygen": {"quick": [{"name": "ack-random", "fn": "ack_random", "count": 300, "runner": "ackrun", "trace_spec": "TraceAck"}],
              "thorough": [{"name": "ack-random", "fn": "ack_random", "count": 5000, "runner": "ackrun", "trace_spec": "TraceAck"}]},
    "trace_spec": "TraceAck",
    "hang_is_violation": True,
    "assumptions": ["TLC; the points D_*/P_* sit between the individual accesses of done()/poll() and add no logic",
                    "the waker slot and its lock are not observable: the specification infers them, wake counts / flag / status cell are observed",
                    "'the task that most recently polled before completion is woken' is read as: the waker registered in the slot when completion runs is woken, and no poll returns Pending after that (an earlier task that shares the handle with a later one is not promised a wake-up by the single slot)"],
    "rule": "a case is one schedule of done() against the polls of 1-3 tasks; TLC-exported schedules are ALL schedules of the instance (or a seeded sample of them), random ones are seeded",
}

# ---- C14: the frequency sketch at byte level (Sketch.tla)
PLANS["C14"] = {
    "mc": {"quick": [{"module": "MC_Sketch", "cfg": "MC_Sketch_quick", "constants": "ByteLemma over all 256 bytes x 2 nibbles (ASSUME); sizing for counters 1..70 (ASSUME); streams of <= 42 accesses of 2 keys, counters 20, positions {0,31}"}],
           "thorough": [{"module": "MC_Sketch", "cfg": "MC_Sketch", "timeout": 1500, "constants": "as quick with positions {0,1,31} and streams <= 44"}]},
    "direct": {"quick": [{"name": "sketch", "cmd": "sketchrun --seed {seed} --runs 60 --rows 800", "trace_spec": "TraceSketch"}],
               "thorough": [{"name": "sketch", "cmd": "sketchrun --seed {seed} --runs 1500 --rows 20000", "trace_spec": "TraceSketch"}]},
    "trace_spec": "TraceSketch",
    "assumptions": ["TLC; the guarded wrappers (verif::row_*, LfuProbe) call the crate-private code unchanged",
                    "64-bit hashing is outside the model: the four positions of a key are logged by the implementation; the doorkeeper's answers are logged (a bloom filter may give false positives)"],
    "rule": "a case is one transition of the real code: one (byte, nibble) of the exhaustive byte tour, one random multi-byte row, one sizing, or one recorded access of a random stream into the real TinyLFU",
}

# ---- C18: no deadlock. Lock programs are extracted from the lock events of the runs below and model-checked (Locks.tla)
PLANS["C18"] = {
    "mc": {"quick": [{"module": "MC_LocksRef", "cfg": "MC_LocksRef", "constants": "reference lock programs (extracted from the unchanged tree and reviewed against the code), 5 thread slots, all interleavings"}],
           "thorough": [{"module": "MC_LocksRef", "cfg": "MC_LocksRef", "constants": "reference lock programs, 5 thread slots, all interleavings"}]},
    "profiles": {"quick": profs([("mix", 6), ("ttl", 5), ("pressure", 4), ("shutrace", 12), ("reads", 3), ("evictrace", 3), ("fill", 3)], 2),
                 "thorough": profs([("mix", 8), ("ttl", 6), ("pressure", 5), ("shutrace", 15), ("reads", 5), ("burst", 5), ("boundary", 4), ("evictrace", 4), ("fill", 3)], 12)},
    "stress": {"quick": [{"rounds": 30, "threads": 4, "ops": 400}], "thorough": [{"rounds": 400, "threads": 6, "ops": 600, "timeout_ms": 30000}]},
    "locks": True,
    "hang_is_violation": True,
    "trace_spec": "TraceCacheD",
    "assumptions": COMMON_ASSUMPTIONS + [
        "lock events come from traced wrappers of parking_lot's RwLock/Mutex (swapped in under cfg cached_verif) and from one-line events at the DashMap and channel calls",
        "a DashMap is treated as ONE reader-writer lock and the TTL shards / pool buffers as one lock each kind (any two may coincide): an over-approximation that is deadlock-free on the unchanged tree",
        "the get_ref guard kept by a caller while calling back into the cache is excluded, as in the statement",
    ],
    "rule": "a case is a combination of recorded critical sections (one per thread slot) and an interleaving of them in Locks.tla; plus every harness run doubles as a hang detector; plus free-running stress rounds under a watchdog",
}

# free-running stress rounds whose quiescent end states are judged by TLC (TraceFinal.tla): real concurrency inside Pool::add etc.
STRESS_FINAL_Q = {"name": "stress-final", "cmd": "stress --seed {seed} --rounds 12 --threads 8 --ops 4000 --reads-pct 85", "trace_spec": "TraceFinal"}
STRESS_FINAL_T = {"name": "stress-final", "cmd": "stress --seed {seed} --rounds 200 --threads 8 --ops 6000 --reads-pct 85", "trace_spec": "TraceFinal"}
STRESS_MIX_Q = {"name": "stress-mix", "cmd": "stress --seed {seed} --rounds 12 --threads 4 --ops 2000 --reads-pct 30", "trace_spec": "TraceFinal"}
STRESS_MIX_T = {"name": "stress-mix", "cmd": "stress --seed {seed} --rounds 200 --threads 6 --ops 3000 --reads-pct 30", "trace_spec": "TraceFinal"}
for p, q, t in [("C15", [STRESS_FINAL_Q], [STRESS_FINAL_T]), ("C16", [STRESS_MIX_Q], [STRESS_MIX_T]), ("C05", [STRESS_MIX_Q], [STRESS_MIX_T])]:
    PLANS[p]["direct"] = {"quick": q, "thorough": t}
    PLANS[p]["assumptions"] = PLANS[p]["assumptions"] + ["free-running stress rounds (no scheduler) are judged only at their quiescent end state, by the same identities (TraceFinal.tla)"]

# free-running sequential histories on private keys under read contention, every call judged by TLC (TraceHist.tla): reaches what
# depends on real lock contention (try-lock style slips), which the deterministic scheduler cannot produce
HIST_Q = {"name": "hist", "cmd": "hist --seed {seed} --rounds 10 --writers 3 --readers 5 --ops 500", "trace_spec": "TraceHist"}
HIST_T = {"name": "hist", "cmd": "hist --seed {seed} --rounds 150 --writers 4 --readers 6 --ops 800", "trace_spec": "TraceHist"}
for p in ["C02", "C03", "C04", "C07", "C08"]:
    d = PLANS[p].setdefault("direct", {"quick": [], "thorough": []})
    d["quick"] = d["quick"] + [HIST_Q]
    d["thorough"] = d["thorough"] + [HIST_T]
    PLANS[p]["assumptions"] = PLANS[p]["assumptions"] + ["free-running histories on private keys (no scheduler) are judged call by call against the sequential meaning of the calls (TraceHist.tla); what they exercise depends on the machine's scheduling"]
HOT_Q = {"name": "hist-hot", "cmd": "hist --mode hot --seed {seed} --rounds 30 --readers 5 --ops 1500", "trace_spec": "TraceHist"}
HOT_T = {"name": "hist-hot", "cmd": "hist --mode hot --seed {seed} --rounds 400 --readers 6 --ops 3000", "trace_spec": "TraceHist"}
for p in ["C06", "C14"]:
    d = PLANS[p].setdefault("direct", {"quick": [], "thorough": []})
    d["quick"] = d["quick"] + [HOT_Q]
    d["thorough"] = d["thorough"] + [HOT_T]
    PLANS[p]["assumptions"] = PLANS[p]["assumptions"] + ["free-running 'hot key' rounds (no scheduler): a continuously read resident against never-read newcomers, each put judged by TraceHist.tla when the newcomer's own estimate (read through the cache's estimate function before and after the put) is 0 and the resident's was at least 4: a newcomer whose sketch positions coincide with the resident's shares its estimate, which is allowed over-counting"]
HANDOVER_Q = {"name": "hist-handover", "cmd": "hist --mode handover --seed {seed} --rounds 60 --ops 3000", "trace_spec": "TraceHist"}
HANDOVER_T = {"name": "hist-handover", "cmd": "hist --mode handover --seed {seed} --rounds 1500 --ops 3000", "trace_spec": "TraceHist"}
for p in ["C12", "C18", "C13"]:
    d = PLANS[p].setdefault("direct", {"quick": [], "thorough": []})
    d["quick"] = d["quick"] + [HANDOVER_Q]
    d["thorough"] = d["thorough"] + [HANDOVER_T]
    PLANS[p]["assumptions"] = PLANS[p]["assumptions"] + ["free-running 'hand-over' rounds: a really sleeping task (thread park) awaits an acknowledgement that another task polled before; a sleeper that is not woken although the acknowledgement completed is reported (TraceHist.tla)"]
CONTEND_Q = {"name": "hist-contend", "cmd": "hist --mode contend --seed {seed} --rounds 150 --ops 2000 --readers 3", "trace_spec": "TraceHist"}
CONTEND_T = {"name": "hist-contend", "cmd": "hist --mode contend --seed {seed} --rounds 3000 --ops 2000 --readers 4", "trace_spec": "TraceHist"}
# the acknowledgements of the real system: none may stay pending when everything is idle (judged in the system traces)
PLANS["C12"]["profiles"] = {"quick": with_spec(profs([("delrace", 8), ("burst", 6), ("mix", 5)], 2), "TraceCacheD"),
                            "thorough": with_spec(profs([("delrace", 8), ("burst", 6), ("mix", 5)], 14), "TraceCacheD")}
# shutdown in the middle of free-running traffic also for C18 (every call returns)
PLANS["C18"]["stress"] = {"quick": PLANS["C18"]["stress"]["quick"] + [{"rounds": 400, "threads": 6, "ops": 6000, "timeout_ms": 8000, "args": "--shutdown-mid"}],
                          "thorough": PLANS["C18"]["stress"]["thorough"] + [{"rounds": 3000, "threads": 6, "ops": 6000, "timeout_ms": 15000, "args": "--shutdown-mid"}]}
PLANS["C12"]["direct"]["quick"] = PLANS["C12"]["direct"]["quick"] + [CONTEND_Q]
PLANS["C12"]["direct"]["thorough"] = PLANS["C12"]["direct"]["thorough"] + [CONTEND_T]
# the delivery step itself (a drained buffer applied to the sketch) also for C15: every record of a batch reaches the sketch exactly once
PLANS["C15"]["direct"]["quick"] = PLANS["C15"]["direct"]["quick"] + [{"name": "sketch", "cmd": "sketchrun --seed {seed} --runs 60 --rows 100", "trace_spec": "TraceSketch"}]
PLANS["C15"]["direct"]["thorough"] = PLANS["C15"]["direct"]["thorough"] + [{"name": "sketch", "cmd": "sketchrun --seed {seed} --runs 1500 --rows 100", "trace_spec": "TraceSketch"}]
for p in ["C07"]:
    PLANS[p]["direct"]["quick"] = PLANS[p]["direct"]["quick"] + [STRESS_MIX_Q]
    PLANS[p]["direct"]["thorough"] = PLANS[p]["direct"]["thorough"] + [STRESS_MIX_T]

# ---- specification instances per property group (MC_inst.tla)
def inst(cfg, text, **kw):
    d = {"module": "MC_inst", "cfg": cfg, "constants": text}
    d.update(kw)
    return d

I_EVICT = inst("MC_evict", "2 callers: put w2; put w2; put w3; put w9(too heavy) || upsert weight; delete. MaxWeight 4, mixed estimates, fine grain")
I_EVICT_COLD = inst("MC_evict_cold", "same programs, incoming key colder than the residents")
I_SHUT = inst("MC_shut", "put; shutdown; put; get || put; delete. QSize 1, fine grain")
I_SHUTP = inst("MC_shutp", "put w3; shutdown || put w3; put w2 in a cache of weight 4: shutdown racing a put that needs an eviction, fine grain")
I_READS = inst("MC_reads", "put; await; get; get_ref; get || get; delete; get. Buffer size 1, consumer running")
I_TTL = inst("MC_ttl", "put ttl 1; upsert ttl 2; get || upsert remove-ttl; get_ref. Sweeper and clock (horizon 3), 2 shards", timeout=1500)
I_GEN = inst("MC_gen", "one caller draws 3 operations from an alphabet of 9 (every write variant) over 2 keys; sweeper, clock", timeout=900)
I_D12 = inst("MC_ttl_D12", "MC_ttl with invariant 'no D12 verdict': must be violated (the model reproduces D12)", expect_violation="NotD12")
I_D13 = inst("MC_ttl_D13", "MC_ttl with invariant 'no D13 verdict': must be violated (the model reproduces D13)", expect_violation="NotD13")
I_D14 = inst("MC_ttl_D14", "MC_ttl with invariant 'no D14 verdict': must be violated (the model reproduces D14)", expect_violation="NotD14")
I_D5 = inst("MC_ttl_D5", "MC_ttl with invariant 'no D5 verdict': must be violated (the model reproduces D5)", expect_violation="NotD5")

MC_BY_PROP = {
    "C01": ([MC_L1, I_EVICT], [I_EVICT_COLD, I_GEN]),
    "C02": ([MC_L1, I_READS], [I_GEN]),
    "C03": ([I_READS, I_SHUT, I_SHUTP], [I_TTL, I_D12]),
    "C04": ([MC_L1, I_READS], [I_GEN]),
    "C05": ([MC_L1, I_EVICT], [MC_L1_NOFIX, I_GEN]),
    "C06": ([I_EVICT, I_EVICT_COLD], [I_GEN]),
    "C07": ([MC_L1, I_EVICT], [MC_L1_NOFIX, I_GEN]),
    "C08": ([I_EVICT, I_READS], [I_TTL, I_D5, I_GEN]),
    "C09": ([I_READS], [I_TTL, I_GEN]),
    "C10": ([I_SHUT], [I_TTL, I_D12, I_D13, I_D14]),
    "C11": ([MC_L1, I_SHUT], [MC_L1_NOFIX, I_GEN]),
    "C13": ([I_SHUT, I_SHUTP], [I_GEN]),
    "C15": ([I_READS], [I_GEN]),
    "C16": ([I_READS, I_EVICT], [I_GEN]),
    "C17": ([I_EVICT, I_SHUT], [I_GEN]),
}
for p, (q, t) in MC_BY_PROP.items():
    PLANS[p]["mc"] = {"quick": q, "thorough": q + t}

# ---- direction 1 for the CacheD-level properties: TLC simulates behaviours of a litmus instance, the harness replays each schedule
def b1(cfg, module="MC_inst"):
    return {"quick": [{"kind": "cached", "module": module, "cfg": cfg, "simulate": [150, 400], "workers": 1}],
            "thorough": [{"kind": "cached", "module": module, "cfg": cfg, "simulate": [3000, 400], "workers": 1, "timeout": 1500}]}

B1_BY_PROP = {
    "C01": b1("MC_evict_export"), "C06": b1("MC_evict_export"),
    "C05": b1("MC_litmus1_export", "MC_litmus1"), "C07": b1("MC_litmus1_export", "MC_litmus1"), "C11": b1("MC_litmus1_export", "MC_litmus1"),
    "C02": b1("MC_reads_export"), "C04": b1("MC_reads_export"), "C15": b1("MC_reads_export"), "C16": b1("MC_reads_export"),
    "C03": b1("MC_ttl_export"), "C08": b1("MC_ttl_export"), "C09": b1("MC_ttl_export"), "C10": b1("MC_ttl_export"),
    "C13": b1("MC_shut_export"), "C17": b1("MC_shut_export"),
}
for p, b in B1_BY_PROP.items():
    PLANS[p]["b1"] = b

# ---- the recorded defects, as found by TLC on the specification (counterexamples of MC_ttl_D* / MC_known_D*) and replayed on the code
for p in ["C01", "C03", "C05", "C07", "C08", "C09", "C10"]:
    PLANS[p]["fixed"] = {"quick": ["scenarios/known.ndjson"], "thorough": ["scenarios/known.ndjson"]}

# C14 at system level: the estimates admission really uses (truth) against the accesses delivered through buffers, channel and consumer
def with_spec(bs, spec):
    return [dict(b, trace_spec=spec) for b in bs]
PLANS["C14"]["profiles"] = {"quick": with_spec(profs([("pressure", 10), ("fill", 8), ("reads", 5)], 2), "TraceCacheD"),
                            "thorough": with_spec(profs([("pressure", 10), ("fill", 8), ("reads", 5)], 14), "TraceCacheD")}
