#!/usr/bin/env python3
"""check.py <property id> <quick|thorough>

One check = (A) TLC on bounded instances of the specification, (B) the real cache driven under the deterministic
scheduler through generated scenarios (and TLC-generated schedules), every step recorded, (C) TLC on the recorded
trace: conformance of every step with the specification's action and the property's judge on every step.

exit 0: property held on everything explored (known findings are printed as KNOWN-FINDING lines)
exit 1: VIOLATION property=<id> replay=<path>
exit 2: tool error / timeout (never a verdict)
"""
import json, os, re, subprocess, sys, time, shutil, hashlib

VERIF = "/verif"
SPEC = f"{VERIF}/spec"
HARNESS = f"{VERIF}/harness"
BIN = f"{HARNESS}/target/debug/cached-verif-harness"
WORK = f"{VERIF}/work"

sys.path.insert(0, f"{VERIF}/tools")
from plans import PLANS  # noqa: E402


def log(*a):
    print(*a, flush=True)


def tool_error(msg):
    log(f"TOOL-ERROR: {msg}")
    sys.exit(2)


def run(cmd, timeout, env=None, cwd=None):
    e = dict(os.environ)
    if env:
        e.update(env)
    try:
        p = subprocess.run(cmd, shell=isinstance(cmd, str), cwd=cwd, env=e, timeout=timeout,
                           stdout=subprocess.PIPE, stderr=subprocess.STDOUT, text=True)
        return p.returncode, p.stdout
    except subprocess.TimeoutExpired as ex:
        out = ex.stdout or ""
        if isinstance(out, bytes):
            out = out.decode(errors="replace")
        return 124, out


def build_harness():
    t = time.time()
    lock = f"{HARNESS}/Cargo.lock"
    rc, out = run("cargo build --offline 2>&1", 1200, cwd=HARNESS,
                  env={"CARGO_NET_OFFLINE": "true"})
    if rc != 0:
        # a change to /repo that does not compile with the hooks on is not a verdict
        log(out[-3000:])
        tool_error("the harness (with /repo as path dependency, hooks on) does not build")
    return time.time() - t


def tlc_mc(module, cfg, workers, timeout, workdir, simulate=None, extra_env=None):
    os.makedirs(workdir, exist_ok=True)
    sim = f"-simulate num={simulate[0]} -depth {simulate[1]}" if simulate else ""
    # (-coverage 1 is pathologically slow on the large CASE expressions of CacheD.tla: vacuity is controlled by
    #  instances that must be violated and by the per-site counts of the implementation traces instead)
    cmd = (f"timeout -k 10 {timeout} tlc -workers {workers} {sim} -metadir {workdir}/meta -cleanup -noGenerateSpecTE "
           f"-config {cfg}.cfg {module}.tla")
    t = time.time()
    rc, out = run(cmd, timeout + 30, cwd=SPEC, env=extra_env)
    open(f"{workdir}/tlc.out", "w").write(out)
    res = {"module": module, "cfg": cfg, "rc": rc, "wall_s": round(time.time() - t, 1)}
    m = re.search(r"(\d+) states generated, (\d+) distinct states found", out)
    if m:
        res["generated"], res["distinct"] = int(m.group(1)), int(m.group(2))
    m = re.search(r"depth of the complete state graph search is (\d+)", out)
    if m:
        res["depth"] = int(m.group(1))
    res["ok"] = "No error has been found" in out or (simulate is not None and rc in (0, 124) and "Error:" not in out)
    res["violated"] = re.findall(r"Invariant (\w+) is violated", out)
    # per-action coverage: actions never taken
    zero = re.findall(r"<(\w+) line \d+, col \d+ to line \d+, col \d+ of module \w+>: 0:0", out)
    res["actions_never_taken"] = sorted(set(zero))
    res["out"] = out
    return res


def harness_gen(profile, seed, count, path):
    rc, out = run(f"{BIN} gen --profile {profile} --seed {seed} --count {count} > {path}", 120)
    if rc != 0:
        tool_error(f"scenario generation failed for profile {profile}: {out[-500:]}")


def harness_run(scen_path, trace_path, timeout, runner="run", locks=None):
    extra = f" --locks {locks}" if locks else ""
    rc, out = run(f"{BIN} {runner} --scenarios {scen_path} --out {trace_path}{extra}", timeout)
    summary, hang = [], None
    for line in out.splitlines():
        if line.startswith("SUMMARY "):
            summary = json.loads(line[8:])
        elif line.startswith("HANG "):
            hang = json.loads(line[5:])
    return rc, summary, hang, out


def trace_check(spec, trace_path, workdir, timeout):
    os.makedirs(workdir, exist_ok=True)
    t = time.time()
    rc, out = run(f"TRACE_TIMEOUT={timeout} {VERIF}/tools/tracecheck.sh {spec} {trace_path} {workdir}", timeout + 60)
    rep = None
    if os.path.exists(f"{workdir}/report.json") and "REPORT-OK" in out:
        rep = json.load(open(f"{workdir}/report.json"))
    return rc, rep, out, time.time() - t


def load_known():
    p = f"{VERIF}/known_findings.json"
    return json.load(open(p)) if os.path.exists(p) else []


def scenario_of_run(scen_path, run_no):
    with open(scen_path) as f:
        for i, line in enumerate(l for l in f if l.strip()):
            if i + 1 == run_no:
                return json.loads(line)
    return None


def main():
    if len(sys.argv) < 3:
        print(__doc__)
        sys.exit(2)
    prop, tier = sys.argv[1], sys.argv[2]
    if prop not in PLANS:
        tool_error(f"no plan for {prop}")
    plan = PLANS[prop]
    seed = int(os.environ.get("VERIF_SEED", "1"))
    t0 = time.time()
    wdir = f"{WORK}/{prop}-{tier}"
    shutil.rmtree(wdir, ignore_errors=True)
    os.makedirs(wdir, exist_ok=True)
    os.makedirs(f"{VERIF}/evidence", exist_ok=True)
    os.makedirs(f"{WORK}/replay", exist_ok=True)

    from engine import execute  # noqa: E402
    result = execute(prop, tier, plan, seed, wdir)
    result["wall_s"] = round(time.time() - t0, 1)

    ev = {
        "property_id": prop, "tier": tier, "seed": seed, "level": "model_checking",
        "coverage": result["coverage"], "assumptions": result["assumptions"],
        "wall_s": result["wall_s"], "violations": len(result["violations"]),
    }
    json.dump(ev, open(f"{VERIF}/evidence/{prop}.json", "w"), indent=1)
    for k in result["known_lines"]:
        log(k)
    if result["tool_errors"]:
        for e in result["tool_errors"]:
            log(f"TOOL-ERROR: {e}")
    if result["violations"]:
        for v in result["violations"]:
            log(f"VIOLATION property={prop} replay={v['replay']}  # {v['what']}")
        sys.exit(1)
    if result["tool_errors"]:
        sys.exit(2)
    log(f"OK property={prop} tier={tier} seed={seed} states={result['coverage'].get('states')} "
        f"traces={result['coverage'].get('traces_validated_against_impl')} steps={result['coverage'].get('impl_steps_validated')} "
        f"divergences={result['coverage'].get('divergences')} wall_s={result['wall_s']}")
    sys.exit(0)


if __name__ == "__main__":
    main()
