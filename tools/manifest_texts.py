BASE_NOTE = ("Trusted: TLC; the additive hooks report true values; the scheduler serialises instrumented threads so recorded order is real order. "
             "Bounded: TLC instances are small (constants in the evidence); implementation histories are sampled (seeded), not exhaustive. "
             "Frequency estimates are inputs of CacheD.tla (logged), the sketch itself is bound separately (C14).")
def T(level, technique, note=BASE_NOTE, **kw):
    d = {"level": level, "technique": technique, "note": note}
    d.update(kw)
    return d

COMMON = ("TLC exhaustively checks bounded instances of CacheD.tla (every interleaving of callers, worker, sweeper at the grain of the code's critical sections) with the property's judge evaluated on every step; "
          "the real cache is then driven under a deterministic scheduler through seeded random histories and schedules, every step is recorded with the projected state, and TLC validates the trace: "
          "each step must be the specification's action for that site (divergences are counted) and the same judge is evaluated on every recorded step. ")
COMMON = COMMON + ("The schedules include TLC-simulated behaviours replayed step by step, sends entered on a full command queue (which must block until the worker makes room), "
                   "and runs that also interleave in front of every lock acquisition of the cache ('lock grain': a span between two named points is checked as one specification step when only its last sub-step changes the observed state). ")
TECH = "TLA+ spec (CacheD.tla) model-checked with TLC + TLC trace validation of deterministic-scheduler runs of the real code"
HIST = ("In addition free-running threads (no scheduler) produce sequential histories on private keys under heavy read contention; TLC checks every recorded call against the sequential meaning of the calls (TraceHist.tla). ")
TECH_H = TECH + " + TLC validation of free-running private-key histories (TraceHist.tla)"

TEXTS = {
 "C01": T(COMMON + "The judge is the bound 0 <= used <= max in every micro-state (and used <= max right after every accepted put); excess explained by recorded finding D2 (unchecked UpdateWeight) is reported as KNOWN-FINDING.", TECH),
 "C02": T(COMMON + HIST + "The judge keeps, per key, the set of values a read may legitimately return (writes begun, minus those superseded by a completed later write/delete) and checks every value returned by all seven read variants against it.", TECH_H),
 "C03": T(COMMON + HIST + "The judge tracks, per key used sequentially, the latest acknowledged value and deadline and requires every read before the deadline to return it as long as no eviction was ever needed.", TECH_H),
 "C04": T(COMMON + HIST + "Judges: a value hidden by a delete that has returned is never read again; an accepted delete leaves no entry and no charged weight; deleting an absent key is rejected with KeyDoesNotExist and changes nothing.", TECH_H),
 "C05": T(COMMON + "Judge at every quiescent state: charged ids = ids of held entries and total = sum of charged weights.", TECH),
 "C06": T(COMMON + "Judges on every admission step, from the logged decision (incoming estimate, sample, victim, space): fits => accepted without eviction; too heavy => rejected unchanged; victim has the lowest estimate of the sample; eviction only while victim estimate <= incoming; accepted iff enough space results.", TECH),
 "C07": T(COMMON + HIST + "Judges on the caller-side and worker-side existence checks and on the store write: readable key => KeyAlreadyExists and nothing changes; KeyAlreadyExists only if an entry is there (elapsed-TTL entries: recorded finding D4).", TECH_H),
 "C08": T(COMMON + HIST + "Judges on the in-place update step (value/TTL exactly as requested, the other unchanged), on the command queued (put variant / explicit weight), and on the worker's weight update.", TECH_H),
 "C09": T(COMMON + "Judges on every key lookup against the entry's deadline at that instant (served => not past; hidden => not before; boundary instant open) and on the deadline stored by TTL puts and upserts.", TECH),
 "C10": T(COMMON + "Judges on every removal by the sweeper (same incarnation, has an expiry, expiry not in the future), on the swept shard after the sweep (no expired entry left, right shard visited) and, at quiescence, on the registration of every deadline in the index.", TECH),
 "C11": T(COMMON + "Judges: the worker receives exactly the head of the specification's queue; acknowledgements complete in submission order and never change; none is pending at quiescence; put;delete of one key by one thread leaves it absent.", TECH),
 "C13": T(COMMON + "Judges: after shutdown() returned every write returns an error and every read is empty; commands behind Shutdown are answered ShuttingDown, executed ones never; no acknowledgement is pending at quiescence; a hang of any granted step is a violation.", TECH),
 "C15": T(COMMON + "Judge in every state: hits = buffered + delivered + dropped (+ reads between lookup and recording); delivered batches are applied exactly once; reads are driven with the consumer stalled for ever.", TECH),
 "C16": T(COMMON + "Judge at every quiescent state: hits+misses = lookups, added-deleted = keys held, weight added-removed = used, rejected = admission refusals; hit ratio from stats_summary() = hits/lookups.", TECH),
 "C17": T(COMMON + "Judge: no API call with valid arguments panics and no background thread dies, over boundary-biased arguments and configurations; every run ends with a liveness probe.", TECH),
}
TEXTS["C12"] = T("Ack.tla models done() and poll() at the grain of the individual accesses (status cell, flag, waker slot and its lock). TLC checks all interleavings of done() with 1-2 polling tasks x 2-3 polls (safety: never Ready(Pending), real and stable status, wake of the registered waker, no Pending after completion; liveness <>AllDone under weak fairness). "
    "TLC then exports EVERY schedule of small instances (and a seeded sample of a larger one); each is replayed step by step on the real CommandAcknowledgement with schedule points between its accesses, and TLC validates every recorded step against Ack.tla and evaluates the same judges.",
    "TLA+ spec (Ack.tla) model-checked with TLC; all TLC-generated schedules replayed on the real acknowledgement; TLC trace validation",
    note="Trusted: TLC; additive points between the accesses; waker slot inferred (not observable). The effect-visible clause is covered by C11/C04/C07 judges on the system traces (status published after the command's last effect).")
TEXTS["C14"] = T("Sketch.tla states the packed-counter functions twice (arithmetically, and as a transliteration of the Rust bit operations) and TLC proves them equal for all 256 bytes x both nibbles together with no-carry, saturation and halving (ASSUME ByteLemma), the sizing facts for counters 1..70, and on bounded access streams into a tiny sketch the invariants NoUnderCount, AgesExactly, WindowCount. "
    "The binding is a per-transition tour: the real Row functions are called on every (byte, nibble), on random multi-byte rows and every counter size 1..70, and the real TinyLFU is driven with random access streams (positions and doorkeeper answers logged); TLC validates every recorded transition against Sketch.tla.",
    "TLA+ spec (Sketch.tla) checked with TLC; per-transition tour and random streams of the real sketch validated by TLC against the spec",
    note="Trusted: TLC, the guarded wrappers. Hash -> position mapping and bloom-filter answers are logged inputs, not derived.")
TEXTS["C18"] = T("Locks.tla is a wait-for model over thread programs given as data (acquire/release of reader-writer locks, blocking send/recv on bounded queues); a deadlock is a set of threads each waiting only for threads of the set. "
    "The programs are EXTRACTED from the real code: every lock (traced parking_lot wrappers, DashMap and channel events) reports acquire/release while the scenarios of the other checks run under the harness; tools/locks.py cuts the event stream into critical sections, and TLC explores all interleavings of one section per thread slot (worker, sweeper, consumer, two callers) for deadlock and re-entry. So an order inversion or a lock held across a blocking send is found from benign runs (predictive), without having to hit the interleaving. "
    "In addition every harness run is a hang detector (a granted step that never reaches its next schedule point) and free-running stress rounds run under a watchdog.",
    "TLA+ wait-for model (Locks.tla) checked with TLC over lock programs extracted from the real code's lock events; hang detection under the deterministic scheduler; stress with watchdog",
    note="Trusted: TLC; the traced lock wrappers and one-line lock events report real acquisitions. Over-approximation: a DashMap is one lock, TTL shards / buffers are merged; verified deadlock-free on the unchanged tree, so a reported cycle comes from the change (it may need particular keys/shards to materialise).")
NOT_APPLICABLE = {}
