#!/bin/bash
# runs every quick check on the unchanged tree with several seeds; any non-zero exit is a false alarm or a tool problem
cd /verif
for seed in "$@"; do
  for p in C01 C02 C03 C04 C05 C06 C07 C08 C09 C10 C11 C12 C13 C14 C15 C16 C17 C18; do
    VERIF_SEED=$seed tools/check.sh $p quick > /verif/work/sweep-$p-$seed.log 2>&1; rc=$?
    echo "seed=$seed $p rc=$rc $(grep -c '^VIOLATION' /verif/work/sweep-$p-$seed.log) $(tail -1 /verif/work/sweep-$p-$seed.log | cut -c1-150)"
  done
done
echo SWEEP-DONE
