#!/usr/bin/env python3
"""locks.py <lock log ndjson> <programs.json>

Extracts "lock programs" from the lock/queue events recorded while the real cache ran under the harness:
one program per critical section (from the first acquisition with nothing held until everything is released),
with lock names canonicalised (TTL shards / buffers are merged: any two of them may be the same lock).
Sections that acquire a single lock and wait for nothing inside cannot be part of a wait cycle and are dropped.
Output: {"programs": [{"role": r, "ops": [[op, lock, mode], ...], "seen": n, "where": "site"}], ...} for Locks.tla.
"""
import json, sys, collections

ACQ, GOT, REL, TOUCH = 1, 2, 3, 4


def canon(name):
    for prefix in ("ttl", "buf"):
        if name.startswith(prefix) and name[len(prefix):].isdigit():
            return prefix
    return name


def role_kind(role):
    return role if role in ("worker", "sweeper", "consumer") else "caller"


def extract(path):
    held = collections.defaultdict(list)      # (run, role) -> stack of (lock, mode)
    cur = {}                                   # (run, role) -> current section ops
    where = {}
    programs = collections.Counter()
    first_site = {}
    n_events = 0
    for line in open(path):
        try:
            r = json.loads(line)
        except Exception:
            continue
        n_events += 1
        key = (r["run"], r["role"])
        lock, mode = canon(r["l"]), r["m"]
        if r["e"] == "q":
            op = "send" if r["op"] == 1 else "recv"
            if held[key]:
                cur[key].append((op, lock, 1))
            continue
        if r["op"] == ACQ:
            if not held[key]:
                cur[key] = []
                where[key] = r["site"]
            cur[key].append(("acq", lock, mode))
            held[key].append((lock, mode))
        elif r["op"] == REL:
            if (lock, mode) in held[key]:
                held[key].remove((lock, mode))
                cur[key].append(("rel", lock, mode))
                if not held[key]:
                    ops = tuple(cur.pop(key))
                    prog = (role_kind(r["role"]), ops)
                    programs[prog] += 1
                    first_site.setdefault(prog, where.get(key, ""))
        elif r["op"] == TOUCH:
            if held[key]:
                cur[key].append(("acq", lock, mode))
                cur[key].append(("rel", lock, mode))
    # collapse immediate repetitions of the same momentary acquisition (hooks before and after one map operation)
    def collapse(ops):
        res = []
        for o in ops:
            res.append(o)
            while len(res) >= 4 and res[-4][0] == "acq" and res[-3][0] == "rel" and res[-2][0] == "acq" and res[-1][0] == "rel" \
                    and res[-4][1:] == res[-3][1:] == res[-2][1:] == res[-1][1:]:
                del res[-2:]
        # collapse repeated identical blocks (several evictions in one sweep)
        changed = True
        while changed:
            changed = False
            n = len(res)
            for size in range(2, n // 2 + 1):
                for start in range(0, n - 2 * size + 1):
                    if res[start:start + size] == res[start + size:start + 2 * size]:
                        del res[start + size:start + 2 * size]
                        changed = True
                        break
                if changed:
                    break
        return tuple(res)
    merged = collections.Counter()
    sites = {}
    for (role, ops), n in programs.items():
        key = (role, collapse(ops))
        merged[key] += n
        sites.setdefault(key, first_site[(role, ops)])
    programs, first_site = merged, sites
    # locks that some section acquires again (shared) while it already holds them: a writer queueing in between blocks the second
    # acquisition for ever, so for these locks the sections that only write-lock them matter too
    reentered = set()
    for (role, ops), n in programs.items():
        have = []
        for o in ops:
            if o[0] == "acq":
                if any(h[0] == o[1] for h in have):
                    reentered.add(o[1])
                have.append((o[1], o[2]))
            elif o[0] == "rel" and (o[1], o[2]) in have:
                have.remove((o[1], o[2]))
    out = []
    for (role, ops), n in programs.items():
        acqs = [o for o in ops if o[0] in ("acq", "send", "recv")]
        if len(acqs) < 2 and not (len(acqs) == 1 and acqs[0][0] == "acq" and acqs[0][2] == 1 and acqs[0][1] in reentered):
            continue      # a single lock with nothing nested: cannot be in a cycle (unless somebody re-enters that lock)
        out.append({"role": role, "ops": [list(o) for o in ops], "seen": n, "where": first_site[(role, ops)]})
    out.sort(key=lambda p: (p["role"], p["ops"]))
    return {"programs": out, "events": n_events, "sections": sum(programs.values())}


if __name__ == "__main__":
    res = extract(sys.argv[1])
    json.dump(res, open(sys.argv[2], "w"))
    print(f"lock events {res['events']}, critical sections {res['sections']}, distinct nested programs {len(res['programs'])}")
    for p in res["programs"]:
        print("  ", p["role"], p["seen"], p["where"], " ".join(f"{o[0]}:{o[1]}{'w' if o[2] else 'r'}" for o in p["ops"]))
