//! Scenario (input) and trace record (output) formats.
use serde::{Deserialize, Serialize};
use std::collections::BTreeMap;

fn d_true() -> bool { true }
fn d_neg1() -> i64 { -1 }
fn d_10() -> u64 { 10 }

#[derive(Debug, Clone, Serialize, Deserialize)]
pub struct Cfg {
    pub max_weight: i64,
    #[serde(default = "d_10")]
    pub counters: u64,
    pub capacity: usize,
    pub shards: usize,
    pub qsize: usize,
    pub pool: usize,
    pub buffer: usize,
    /// "id": hash = key; "const": hash = 7 for every key; "default": DefaultHasher
    pub hash: String,
    /// initial clock (seconds since the epoch)
    pub clock0: i64,
    /// weight function for puts without an explicit weight: weight = wf_base + key % wf_mod + (ttl ? wf_ttl : 0)
    pub wf_base: i64,
    pub wf_mod: i64,
    pub wf_ttl: i64,
    /// use the crate's default weight calculation function instead of the table
    #[serde(default)]
    pub default_weight_fn: bool,
}

#[derive(Debug, Clone, Serialize, Deserialize, Default)]
pub struct Op {
    /// put | pou | del | get | mget | poll | await | shutdown | weight | stats | stop
    pub op: String,
    #[serde(default)]
    pub id: i64,
    #[serde(default = "d_neg1")]
    pub k: i64,
    #[serde(default = "d_neg1")]
    pub v: i64,
    #[serde(default = "d_neg1")]
    pub w: i64,
    /// time to live in seconds, -1: none
    #[serde(default = "d_neg1")]
    pub ttl: i64,
    /// extra nanoseconds of time to live (boundary tests)
    #[serde(default)]
    pub ttl_ns: i64,
    #[serde(default)]
    pub rm: bool,
    /// read variant: get | get_ref | map_get | map_get_ref | multi_get | iter | map_iter
    #[serde(default)]
    pub var: String,
    #[serde(default)]
    pub ks: Vec<i64>,
    /// operation id whose acknowledgement is polled / awaited
    #[serde(default)]
    pub r#ref: i64,
    /// env: clock advance in seconds
    #[serde(default)]
    pub d: i64,
}

#[derive(Debug, Clone, Serialize, Deserialize)]
#[serde(tag = "kind")]
pub enum Schedule {
    /// seeded random choice among enabled actors
    #[serde(rename = "random")]
    Random {
        seed: u64,
        #[serde(default)]
        stall_sweeper: bool,
        #[serde(default)]
        stall_consumer: bool,
        /// probability (percent) that an enabled environment clock advance is taken at a step
        #[serde(default)]
        advance_pct: u32,
        #[serde(default)]
        max_advance: i64,
        /// percent: relative eagerness of the sweeper
        #[serde(default)]
        sweeper_pct: u32,
        /// percent: probability of continuing with the actor that ran last (coarser interleavings)
        #[serde(default)]
        sticky_pct: u32,
        /// percent: relative eagerness of the command worker (0 = 100); small values let the queue lag behind the callers
        #[serde(default)]
        worker_pct: u32,
        /// percent: eagerness of a caller whose send finds the command queue FULL (0: such a send is never entered).
        /// The send must block until the worker makes room; the controller watches that it does.
        #[serde(default)]
        full_send_pct: u32,
    },
    /// explicit list of (actor, site) steps; "env" steps carry the advance in `d`
    #[serde(rename = "list")]
    List { steps: Vec<ListStep>, #[serde(default = "d_true")] then_drain: bool },
}

#[derive(Debug, Clone, Serialize, Deserialize)]
pub struct ListStep {
    pub a: String,
    #[serde(default)]
    pub s: String,
    #[serde(default)]
    pub d: i64,
}

#[derive(Debug, Clone, Serialize, Deserialize)]
pub struct Scenario {
    pub name: String,
    pub cfg: Cfg,
    /// caller name -> program
    pub programs: BTreeMap<String, Vec<Op>>,
    /// sites that yield; empty = all
    #[serde(default)]
    pub yield_sites: Vec<String>,
    pub schedule: Schedule,
    /// frequency profile installed before the run: (key, accesses)
    #[serde(default)]
    pub freq: Vec<(i64, usize)>,
    #[serde(default)]
    pub max_steps: usize,
}

// ---------------------------------------------------------------- trace records

#[derive(Debug, Clone, Serialize, Default)]
pub struct RetRec {
    /// -1: none; -2: Err(send error); otherwise status code
    pub st: i64,
    /// value read (-1: absent)
    pub v: i64,
    pub vs: Vec<i64>,
    /// expiry seen through get_ref (-1: none / not applicable)
    pub exp: i64,
    pub panic: bool,
    /// acknowledgement number handed out (0: none)
    pub ack: i64,
    /// generic number (weight, ...)
    pub n: i64,
    /// wake count of the polling waker (poll / await)
    pub wakes: i64,
}

#[derive(Debug, Clone, Serialize)]
pub struct EvRec {
    pub e: String,
    pub f: Vec<i64>,
}

#[derive(Debug, Clone, Serialize)]
pub struct StoreRec { pub k: i64, pub v: i64, pub id: i64, pub exp: i64, pub soft: bool }

#[derive(Debug, Clone, Serialize)]
pub struct KwRec { pub id: i64, pub k: i64, pub w: i64 }

#[derive(Debug, Clone, Serialize)]
pub struct TtlRec { pub id: i64, pub exp: i64 }

#[derive(Debug, Clone, Serialize)]
pub struct AckRec { pub a: i64, pub done: bool, pub st: i64 }

#[derive(Debug, Clone, Serialize, Default)]
pub struct StateRec {
    pub store: Vec<StoreRec>,
    pub kw: Vec<KwRec>,
    pub used: i64,
    pub max: i64,
    /// exact comparisons of the real 64-bit values (the fields above are clamped): total above the cache weight / below zero
    pub over: bool,
    pub neg: bool,
    pub ttl: Vec<Vec<TtlRec>>,
    pub qlen: i64,
    pub chlen: i64,
    pub buf: Vec<i64>,
    pub stats: Vec<i64>,
    pub ratio_ppm: i64,
    pub shut: bool,
    pub keep_s: bool,
    pub keep_c: bool,
    pub now: i64,
    pub acks: Vec<AckRec>,
    pub lfu_inc: i64,
}

#[derive(Debug, Clone, Serialize)]
pub struct StepRec {
    /// "reset" | "step" | "end"
    pub t: String,
    pub run: i64,
    pub i: i64,
    pub actor: String,
    pub site: String,
    pub arg: i64,
    pub next: String,
    pub narg: i64,
    pub op: Op,
    pub ret: RetRec,
    pub ev: Vec<EvRec>,
    /// [key id, estimate the sketch gives for that id's key right after the step] for the ids named in admission events
    pub truth: Vec<Vec<i64>>,
    /// reset only: the frequency profile installed before the run, [key, accesses] in installation order
    pub freq: Vec<Vec<i64>>,
    pub pc: BTreeMap<String, String>,
    pub s: StateRec,
    /// 1: during this (worker) step a sender that was blocked on the full queue came loose and pushed its command;
    /// its own step record follows
    pub unb: i64,
    /// reset only
    #[serde(skip_serializing_if = "Option::is_none")]
    pub cfg: Option<Cfg>,
}
