//! Free-running stress (no scheduler, hooks inactive): N caller threads on overlapping keys against the real
//! worker / sweeper / consumer with the smallest shard count, queue size 1 and pool size 1. A watchdog reports a
//! stall (no thread finished within the time limit): a real deadlock or a lost acknowledgement.
use std::future::Future;
use std::pin::Pin;
use std::sync::atomic::{AtomicBool, AtomicI64, AtomicUsize, Ordering};
use std::sync::{mpsc, Arc};
use std::task::{Context, Poll, Wake, Waker};
use std::time::{Duration, Instant, SystemTime, UNIX_EPOCH};

use rand::rngs::StdRng;
use rand::{Rng, SeedableRng};

use tinylfu_cached::cache::cached::CacheD;
use tinylfu_cached::cache::clock::Clock;
use tinylfu_cached::cache::command::command_executor::CommandSendResult;
use tinylfu_cached::cache::config::ConfigBuilder;
use tinylfu_cached::cache::put_or_update::PutOrUpdateRequestBuilder;

#[derive(Clone)]
struct StressClock(Arc<AtomicI64>);

impl Clock for StressClock {
    fn now(&self) -> SystemTime { UNIX_EPOCH + Duration::from_secs(self.0.load(Ordering::SeqCst) as u64) }
}

struct Noop;
impl Wake for Noop { fn wake(self: Arc<Self>) {} }

/// waits for the acknowledgement by polling; gives up (returns false) when `deadline` passes
fn wait(result: CommandSendResult, deadline: Instant) -> bool {
    if let Ok(ack) = result {
        let waker = Waker::from(Arc::new(Noop));
        let mut context = Context::from_waker(&waker);
        loop {
            let mut handle = ack.handle();
            if let Poll::Ready(_) = Pin::new(&mut handle).poll(&mut context) { return true; }
            if Instant::now() > deadline { return false; }
            std::thread::yield_now();
        }
    }
    true
}

pub struct StressOutcome { pub rounds: usize, pub ops: usize, pub stall: Option<String> }

pub fn run(seed: u64, rounds: usize, threads: usize, ops_per_thread: usize, timeout: Duration, reads_pct: u32, shutdown_mid: bool,
           mut final_out: Option<&mut dyn std::io::Write>) -> StressOutcome {
    let mut total_ops = 0;
    for round in 0..rounds {
        let mut rng = StdRng::seed_from_u64(seed.wrapping_add(round as u64));
        let clock = StressClock(Arc::new(AtomicI64::new(1000)));
        // (several access buffers in two rounds of three: their drains run in parallel)
        let pool_size = *[1usize, 2, 4].get((round / 3) % 3).unwrap();
        let cache = Arc::new(CacheD::<u64, u64>::new(
            ConfigBuilder::new(*[1u64, 4, 64].get(rng.gen_range(0..3)).unwrap(), 16, if shutdown_mid { 1_000_000 } else { *[6i64, 20, 200].get(rng.gen_range(0..3)).unwrap() })
                .shards(2).command_buffer_size(if shutdown_mid { *[1usize, 1, 2, 256, 8192].get(rng.gen_range(0..5)).unwrap() } else { *[1usize, 1, 2].get(rng.gen_range(0..3)).unwrap() }).access_pool_size(pool_size).access_buffer_size(*[1usize, 2, 8].get(round % 3).unwrap())
                .clock(Box::new(clock.clone())).ttl_tick_duration(Duration::from_millis(1))
                .key_hash_fn(Box::new(|key: &u64| *key)).build()));
        let deadline = Instant::now() + timeout;
        let (sender, receiver) = mpsc::channel();
        let stop = Arc::new(AtomicBool::new(false));
        let done_ops = Arc::new(AtomicUsize::new(0));
        let lookups = Arc::new(AtomicUsize::new(0));
        let buffer_size = *[1usize, 2, 8].get(round % 3).unwrap();
        {
            let (clock, stop) = (clock.clone(), stop.clone());
            std::thread::spawn(move || { while !stop.load(Ordering::SeqCst) { clock.0.fetch_add(1, Ordering::SeqCst); std::thread::sleep(Duration::from_millis(2)); } });
        }
        let with_shutdown = rng.gen_bool(0.5) || (shutdown_mid && round % 2 == 1);
        for thread in 0..threads {
            let (cache, sender, done_ops, lookups) = (cache.clone(), sender.clone(), done_ops.clone(), lookups.clone());
            let thread_seed: u64 = rng.gen();
            // (every second round with a shutdown in the middle: nothing but the cheapest command, a delete of an absent key, from
            //  every thread as fast as it goes, so that senders are queueing at the very moment the worker winds down)
            let hammer = shutdown_mid && round % 2 == 1;
            std::thread::spawn(move || {
                let mut rng = StdRng::seed_from_u64(thread_seed);
                let mut ok = true;
                let mut kept: Vec<CommandSendResult> = Vec::new();
                if hammer {
                    // a tight loop of the cheapest command until the cache refuses (it is shut down a moment after the start)
                    let mut key = (thread as u64 + 1) << 32;
                    let started = Instant::now();
                    loop {
                        key += 1;
                        match cache.delete(key) {
                            Ok(ack) => { if kept.len() == 8 { kept.remove(0); } kept.push(Ok(ack)); }
                            Err(_) => break,
                        }
                        if started.elapsed() > Duration::from_secs(2) { break; }
                    }
                    done_ops.fetch_add(ops_per_thread, Ordering::SeqCst);
                    for result in kept { if !wait(result, deadline) { ok = false; } }
                    let _ = sender.send((thread, ok));
                    return;
                }
                for index in 0..ops_per_thread {
                    // (many keys in the rounds with a shutdown in the middle: clearing the structures then takes a while)
                    let key = rng.gen_range(0..if shutdown_mid { 4096u64 } else { 4u64 });
                    let value = (thread * 100_000 + index) as u64;
                    // (rounds with a shutdown in the middle: mostly weight-changing upserts, so that the worker is busy with queued
                    //  commands while shutdown() clears the structures)
                    let roll = if hammer { 5 } else if rng.gen_range(0..100) < reads_pct { rng.gen_range(6..10) } else if shutdown_mid && rng.gen_bool(0.6) { 4 } else { rng.gen_range(0..10) };
                    let result = match roll {
                        0 | 1 => Some(cache.put_with_weight(key, value, rng.gen_range(1..5))),
                        2 => Some(cache.put_with_weight_and_ttl(key, value, rng.gen_range(1..5), Duration::from_secs(rng.gen_range(1..4)))),
                        3 => Some(cache.put_or_update(PutOrUpdateRequestBuilder::new(key).value(value).time_to_live(Duration::from_secs(rng.gen_range(1..4))).build())),
                        4 => Some(cache.put_or_update(PutOrUpdateRequestBuilder::new(key).value(value).weight(rng.gen_range(1..5)).build())),
                        5 => Some(cache.delete(key)),
                        6 => { lookups.fetch_add(1, Ordering::SeqCst); let _ = cache.get_ref(&key).map(|reference| *reference.value().value_ref()); None }
                        7 => { lookups.fetch_add(3, Ordering::SeqCst); let _ = cache.multi_get(vec![&0, &1, &2]); None }
                        _ => { lookups.fetch_add(1, Ordering::SeqCst); let _ = cache.get(&key); None }
                    };
                    if let Some(result) = result {
                        // (rounds with a shutdown in the middle let the queue grow: few acknowledgements are awaited at once, but
                        //  the last ones of every thread are kept and awaited at the end: none may stay pending for ever)
                        if rng.gen_bool(if shutdown_mid { 0.02 } else { 0.6 }) { if !wait(result, deadline) { ok = false; break; } }
                        else if shutdown_mid { if kept.len() == 8 { kept.remove(0); } kept.push(result); }
                    }
                    done_ops.fetch_add(1, Ordering::SeqCst);
                }
                for result in kept { if !wait(result, deadline) { ok = false; } }
                let _ = sender.send((thread, ok));
            });
        }
        drop(sender);
        // shutdown() in the middle of the traffic (every other round): it must return, and so must every caller
        let hammer_round = shutdown_mid && round % 2 == 1;
        let shutdown_done = if shutdown_mid && with_shutdown {
            let (cache, done_ops) = (cache.clone(), done_ops.clone());
            let after = rng.gen_range(0..(threads * ops_per_thread / 2).max(1));
            let (done_sender, done_receiver) = mpsc::channel();
            std::thread::spawn(move || {
                if hammer_round {
                    let pause = Duration::from_micros(150 + (round as u64 % 7) * 40);
                    let begin = Instant::now();
                    while begin.elapsed() < pause { std::hint::spin_loop(); }
                } else {
                    while done_ops.load(Ordering::SeqCst) < after { std::thread::yield_now(); }
                }
                cache.shutdown();
                let _ = done_sender.send(());
            });
            Some(done_receiver)
        } else { None };
        let mut finished = 0;
        let mut pending_forever = false;
        while finished < threads {
            match receiver.recv_timeout(deadline.saturating_duration_since(Instant::now()) + Duration::from_millis(500)) {
                Ok((_, ok)) => { finished += 1; if !ok { pending_forever = true; } }
                Err(_) => break,
            }
        }
        stop.store(true, Ordering::SeqCst);
        total_ops += done_ops.load(Ordering::SeqCst);
        if let Some(done) = &shutdown_done {
            if done.recv_timeout(deadline.saturating_duration_since(Instant::now()) + Duration::from_millis(500)).is_err() {
                return StressOutcome { rounds: round + 1, ops: total_ops, stall: Some(format!(
                    "round {} (seed {}): shutdown() called in the middle of the traffic did not return within {:?} ({} of {} caller threads finished)",
                    round, seed.wrapping_add(round as u64), timeout, finished, threads)) };
            }
        }
        if finished < threads || pending_forever {
            return StressOutcome { rounds: round + 1, ops: total_ops, stall: Some(format!(
                "round {} (seed {}): {} of {} caller threads finished within {:?}{}", round, seed.wrapping_add(round as u64), finished, threads, timeout,
                if pending_forever { "; an acknowledgement never completed" } else { "" })) };
        }
        if shutdown_done.is_some() { continue; }   // (shut down: there is no quiescent running state to judge)
        // quiescence: the clock stands still, the queue drains, a few sweeps pass
        let mut snapshot = cache.verif_snapshot(&|key| *key as i64, &|value| *value as i64);
        for _ in 0..400 {
            std::thread::sleep(Duration::from_millis(5));
            let next = cache.verif_snapshot(&|key| *key as i64, &|value| *value as i64);
            let stable = next.queue_len == 0 && next.stats == snapshot.stats && next.weight_used == snapshot.weight_used && next.access_channel_len == 0;
            snapshot = next;
            if stable { break; }
        }
        if let Some(out) = final_out.as_mut() {
            let record = serde_json::json!({
                "t": "final", "run": round + 1, "lookups": lookups.load(Ordering::SeqCst), "pool": pool_size, "buffer": buffer_size,
                "s": {
                    "store": snapshot.store.iter().map(|entry| serde_json::json!({"k": entry.key, "id": entry.id})).collect::<Vec<_>>(),
                    "kw": snapshot.weights.iter().map(|entry| serde_json::json!({"id": entry.id, "k": entry.key, "w": entry.weight})).collect::<Vec<_>>(),
                    "used": snapshot.weight_used.unwrap_or(-999), "max": snapshot.max_weight, "qlen": snapshot.queue_len, "chlen": snapshot.access_channel_len,
                    "buf": snapshot.buffer_lens.iter().map(|len| len.map(|len| len as i64).unwrap_or(-1)).collect::<Vec<_>>(),
                    "stats": snapshot.stats.iter().map(|value| *value as i64).collect::<Vec<_>>(),
                }
            });
            serde_json::to_writer(&mut **out, &record).unwrap();
            out.write_all(b"\n").unwrap();
        }
        let _ = with_shutdown;
        cache.shutdown();
    }
    StressOutcome { rounds, ops: total_ops, stall: None }
}
