//! Runs one scenario against the real cache under the deterministic scheduler and records every step.
use std::collections::{BTreeMap, HashMap, HashSet};
use std::future::Future;
use std::io::Write;
use std::panic::{catch_unwind, AssertUnwindSafe};
use std::pin::Pin;
use std::sync::atomic::{AtomicI64, AtomicUsize, Ordering};
use std::sync::{Arc, Mutex};
use std::task::{Context, Poll, Wake, Waker};
use std::time::{Duration, SystemTime, UNIX_EPOCH};

use rand::rngs::StdRng;
use rand::{Rng, SeedableRng};

use tinylfu_cached::cache::cached::CacheD;
use tinylfu_cached::cache::clock::Clock;
use tinylfu_cached::cache::command::acknowledgement::CommandAcknowledgement;
use tinylfu_cached::cache::command::command_executor::CommandSendResult;
use tinylfu_cached::cache::config::ConfigBuilder;
use tinylfu_cached::cache::put_or_update::PutOrUpdateRequestBuilder;
use tinylfu_cached::cache::verif;

use crate::model::*;
use crate::sched::{Sched, Status};

pub const ACCESS_CHANNEL_CAPACITY: usize = 10;
/// values beyond this are mapped into the "large" zone of the specification's integers
pub const BIG: i64 = 1 << 30;

#[derive(Clone)]
pub struct HarnessClock {
    secs: Arc<AtomicI64>,
    nanos: Arc<AtomicI64>,
}

impl Clock for HarnessClock {
    fn now(&self) -> SystemTime {
        UNIX_EPOCH + Duration::new(self.secs.load(Ordering::SeqCst) as u64, self.nanos.load(Ordering::SeqCst) as u32)
    }
}

struct CountingWaker(AtomicUsize);

impl Wake for CountingWaker {
    fn wake(self: Arc<Self>) { self.0.fetch_add(1, Ordering::SeqCst); }
    fn wake_by_ref(self: &Arc<Self>) { self.0.fetch_add(1, Ordering::SeqCst); }
}

pub type Cache = CacheD<u64, u64>;

struct Shared {
    cache: Arc<Cache>,
    next_op: Mutex<HashMap<String, Op>>,
    rets: Mutex<HashMap<String, RetRec>>,
    /// operation id -> acknowledgement
    acks: Mutex<HashMap<i64, Arc<CommandAcknowledgement>>>,
    wakers: Mutex<HashMap<String, Arc<CountingWaker>>>,
    stop: std::sync::atomic::AtomicBool,
}

pub fn clamp(value: i64) -> i64 {
    if value > BIG { BIG } else if value < -BIG { -BIG } else { value }
}

fn ttl_of(op: &Op) -> Option<Duration> {
    if op.ttl < 0 { None } else if op.ttl >= BIG { Some(Duration::MAX) } else { Some(Duration::new(op.ttl as u64, op.ttl_ns as u32)) }
}

fn weight_of(op: &Op) -> i64 {
    // weights in the large zone (BIG + 1 + k) stand for i64::MAX - k
    if op.w > BIG { i64::MAX - (op.w - BIG - 1) } else { op.w }
}

fn ack_result(shared: &Shared, op: &Op, result: CommandSendResult, ret: &mut RetRec) {
    match result {
        Ok(ack) => {
            let (done, status) = ack.handle().verif_peek();
            ret.st = if done { status.map(|status| verif::status_code(&status)).unwrap_or(0) } else { 0 };
            ret.ack = ack.handle().verif_id();
            shared.acks.lock().unwrap().insert(op.id, ack);
        }
        Err(_) => ret.st = -2,
    }
}

fn poll_once(shared: &Shared, role: &str, op: &Op, ret: &mut RetRec) -> bool {
    let ack = shared.acks.lock().unwrap().get(&op.r#ref).cloned();
    match ack {
        None => { ret.st = -1; true }
        Some(ack) => {
            let counting = shared.wakers.lock().unwrap().entry(role.to_string()).or_insert_with(|| Arc::new(CountingWaker(AtomicUsize::new(0)))).clone();
            let waker = Waker::from(counting.clone());
            let mut context = Context::from_waker(&waker);
            let mut handle = ack.handle();
            let polled = Pin::new(&mut handle).poll(&mut context);
            ret.ack = ack.handle().verif_id();
            ret.wakes = counting.0.load(Ordering::SeqCst) as i64;
            match polled {
                Poll::Ready(status) => { ret.st = verif::status_code(&status); true }
                Poll::Pending => { ret.st = 0; false }
            }
        }
    }
}

fn exec(shared: &Shared, role: &str, op: &Op) -> RetRec {
    let cache = &shared.cache;
    let mut ret = RetRec { st: -1, v: -1, exp: -1, ..Default::default() };
    match op.op.as_str() {
        "put" => {
            let (key, value) = (op.k as u64, op.v as u64);
            let result = match (op.w >= 0, ttl_of(op)) {
                (false, None) => cache.put(key, value),
                (true, None) => cache.put_with_weight(key, value, weight_of(op)),
                (false, Some(ttl)) => cache.put_with_ttl(key, value, ttl),
                (true, Some(ttl)) => cache.put_with_weight_and_ttl(key, value, weight_of(op), ttl),
            };
            ack_result(shared, op, result, &mut ret);
        }
        "pou" => {
            let mut builder = PutOrUpdateRequestBuilder::new(op.k as u64);
            if op.v >= 0 { builder = builder.value(op.v as u64); }
            if op.w >= 0 { builder = builder.weight(weight_of(op)); }
            if let Some(ttl) = ttl_of(op) { builder = builder.time_to_live(ttl); }
            if op.rm { builder = builder.remove_time_to_live(); }
            let result = cache.put_or_update(builder.build());
            ack_result(shared, op, result, &mut ret);
        }
        "del" => {
            let result = cache.delete(op.k as u64);
            ack_result(shared, op, result, &mut ret);
        }
        "get" => {
            let key = op.k as u64;
            match op.var.as_str() {
                "get_ref" => {
                    if let Some(value_ref) = cache.get_ref(&key) {
                        ret.v = *value_ref.value().value_ref() as i64;
                        ret.exp = value_ref.value().expire_after().map(|time| clamp(verif::secs(&time))).unwrap_or(-1);
                        ret.n = *value_ref.key() as i64;
                    }
                }
                "map_get" => { ret.v = cache.map_get(&key, |value| value as i64).unwrap_or(-1); }
                "map_get_ref" => { ret.v = cache.map_get_ref(&key, |stored| *stored.value_ref() as i64).unwrap_or(-1); }
                "multi_get" => {
                    let values = cache.multi_get(vec![&key]);
                    ret.v = values.get(&key).and_then(|value| value.map(|value| value as i64)).unwrap_or(-1);
                }
                "iter" => {
                    let mut iterator = cache.multi_get_iterator(vec![&key]);
                    ret.v = iterator.next().and_then(|value| value.map(|value| value as i64)).unwrap_or(-1);
                }
                "map_iter" => {
                    let mut iterator = cache.multi_get_map_iterator(vec![&key], |value| value as i64);
                    ret.v = iterator.next().and_then(|value| value).unwrap_or(-1);
                }
                _ => { ret.v = cache.get(&key).map(|value| value as i64).unwrap_or(-1); }
            }
        }
        "mget" => {
            let keys: Vec<u64> = op.ks.iter().map(|key| *key as u64).collect();
            let refs: Vec<&u64> = keys.iter().collect();
            match op.var.as_str() {
                "iter" => {
                    let iterator = cache.multi_get_iterator(refs);
                    ret.vs = iterator.map(|value| value.map(|value| value as i64).unwrap_or(-1)).collect();
                }
                "map_iter" => {
                    let iterator = cache.multi_get_map_iterator(refs, |value| value as i64);
                    ret.vs = iterator.map(|value| value.unwrap_or(-1)).collect();
                }
                _ => {
                    let values = cache.multi_get(refs);
                    ret.vs = keys.iter().map(|key| values.get(key).and_then(|value| value.map(|value| value as i64)).unwrap_or(-1)).collect();
                    if values.is_empty() { ret.vs = Vec::new(); }
                }
            }
        }
        "poll" => { poll_once(shared, role, op, &mut ret); }
        "await" => {
            loop {
                verif::point("C_Poll", op.r#ref);
                if poll_once(shared, role, op, &mut ret) { break; }
                if shared.stop.load(Ordering::SeqCst) { break; }
            }
        }
        "shutdown" => { cache.shutdown(); }
        "weight" => { ret.n = clamp(cache.total_weight_used()); }
        "stats" => { ret.n = (cache.stats_summary().hit_ratio * 1_000_000.0).round() as i64; }
        _ => {}
    }
    ret
}

pub struct RunOutcome {
    pub imprecise: bool,
    pub steps: usize,
    pub hang: Option<String>,
    pub stuck: bool,
    pub schedule: Vec<ListStep>,
}

pub struct Driver<'a> {
    pub out: &'a mut dyn Write,
    /// lock / queue events go here (one json line each) instead of into the step records
    pub locks: Option<&'a mut dyn Write>,
    pub run_no: i64,
    pub step_timeout: Duration,
}

struct Ctl {
    sched: Arc<Sched>,
    shared: Arc<Shared>,
    clock: HarnessClock,
    cfg: Cfg,
    ack_numbers: HashMap<i64, i64>,
    ack_handles: Vec<(i64, Arc<CommandAcknowledgement>)>,
    current_op: HashMap<String, Op>,
    sweeper_holds: Option<i64>,
    last_ttl: Vec<Vec<TtlRec>>,
    last_used: i64,
    last_buf: Vec<i64>,
    hash_to_key: HashMap<u64, i64>,
    last_acks: HashMap<i64, (bool, i64)>,
    /// a caller that was let into a send on the FULL command queue and is (as it must be) blocked in it: (role, C_Send's argument)
    blocked: Option<(String, i64)>,
    /// sends on a full queue may be entered (the schedule asks for it)
    full_send: bool,
    /// traced locks currently held: address -> (role, mode) (from the lock events; decides whether an L_Acq point may be granted)
    holders: HashMap<i64, Vec<(String, i64)>>,
}

impl Ctl {
    fn ack_number(&mut self, ptr: i64) -> i64 {
        if ptr == 0 { return 0; }
        let next = self.ack_numbers.len() as i64 + 1;
        *self.ack_numbers.entry(ptr).or_insert(next)
    }

    fn state(&mut self) -> StateRec {
        let snapshot = self.shared.cache.verif_snapshot(&|key| *key as i64, &|value| *value as i64);
        let mut store: Vec<StoreRec> = snapshot.store.iter().map(|entry| StoreRec {
            k: entry.key, v: entry.value, id: entry.id as i64,
            exp: entry.expiry.map(|expiry| clamp(expiry.0)).unwrap_or(-1), soft: entry.soft_deleted,
        }).collect();
        store.sort_by_key(|entry| entry.k);
        let mut kw: Vec<KwRec> = snapshot.weights.iter().map(|entry| KwRec { id: entry.id as i64, k: entry.key, w: clamp(entry.weight) }).collect();
        kw.sort_by_key(|entry| entry.id);
        let mut ttl = Vec::new();
        for (index, shard) in snapshot.ttl_shards.iter().enumerate() {
            match shard {
                Some(entries) => {
                    let mut entries: Vec<TtlRec> = entries.iter().map(|entry| TtlRec { id: entry.0 as i64, exp: clamp(entry.1) }).collect();
                    entries.sort_by_key(|entry| entry.id);
                    ttl.push(entries);
                }
                None => ttl.push(self.last_ttl.get(index).cloned().unwrap_or_default()),
            }
        }
        self.last_ttl = ttl.clone();
        let (over, neg) = match snapshot.weight_used { Some(used) => (used > snapshot.max_weight, used < 0), None => (false, false) };
        let used = match snapshot.weight_used { Some(used) => clamp(used), None => self.last_used };
        self.last_used = used;
        let buf: Vec<i64> = snapshot.buffer_lens.iter().enumerate().map(|(index, len)| match len {
            Some(len) => *len as i64,
            None => self.last_buf.get(index).copied().unwrap_or(0),
        }).collect();
        self.last_buf = buf.clone();
        // only acknowledgements that are new or changed since the last record (completed ones never change: a change is reported)
        let mut acks = Vec::new();
        for (number, ack) in &self.ack_handles {
            let (done, status) = ack.handle().verif_peek();
            let st = status.map(|status| verif::status_code(&status)).unwrap_or(-1);
            if self.last_acks.get(number) != Some(&(done, st)) {
                self.last_acks.insert(*number, (done, st));
                acks.push(AckRec { a: *number, done, st });
            }
        }
        StateRec {
            store, kw, used, max: clamp(snapshot.max_weight), over, neg, ttl,
            qlen: snapshot.queue_len as i64, chlen: snapshot.access_channel_len as i64, buf,
            stats: snapshot.stats.iter().map(|value| clamp(*value as i64)).collect(),
            ratio_ppm: (snapshot.hit_ratio * 1_000_000.0).round() as i64,
            shut: snapshot.shutting_down, keep_s: snapshot.sweeper_keep_running, keep_c: snapshot.consumer_keep_running,
            now: self.clock.secs.load(Ordering::SeqCst), acks,
            lfu_inc: snapshot.lfu_increments.map(|value| value as i64).unwrap_or(-1),
        }
    }

    fn site_of(&self, role: &str) -> Option<(String, i64)> {
        match self.sched.status(role) {
            Some(Status::Parked { site, arg }) => Some((site, arg)),
            _ => None,
        }
    }

    fn enabled(&self, role: &str, state: &StateRec, programs: &BTreeMap<String, Vec<Op>>, cursor: &HashMap<String, usize>) -> bool {
        let (site, arg) = match self.site_of(role) { Some(pair) => pair, None => return false };
        match site.as_str() {
            "C_Idle" => cursor.get(role).copied().unwrap_or(0) < programs.get(role).map(|program| program.len()).unwrap_or(0),
            "C_Send" => (state.qlen as usize) < self.cfg.qsize || matches!(self.sched.status("worker"), Some(Status::Exited { .. }))
                || (self.full_send && self.blocked.is_none()),
            "W_Recv" | "W_Drain" => state.qlen > 0,
            "R_Recv" => state.chlen > 0,
            "C_ShutPolicy" => (state.chlen as usize) < ACCESS_CHANNEL_CAPACITY,
            "T_Put" | "T_UpdRemove" | "T_UpdInsert" | "T_Del" => self.sweeper_holds != Some(arg),
            "C_ShutClearTtl" => self.sweeper_holds.is_none(),
            "L_AcqR" => !self.holders.get(&arg).map(|held| held.iter().any(|(other, mode)| other != role && *mode == 1)).unwrap_or(false),
            "L_AcqW" => !self.holders.get(&arg).map(|held| held.iter().any(|(other, _)| other != role)).unwrap_or(false),
            _ => true,
        }
    }

    fn pcs(&self) -> BTreeMap<String, String> {
        self.sched.statuses().into_iter().map(|(role, status)| (role.clone(), match status {
            // (the blocked sender's step is recorded when it has come loose; until then it is still at its send)
            _ if self.blocked.as_ref().map(|blocked| blocked.0 == role).unwrap_or(false) => "C_Send".to_string(),
            Status::Running => "RUN".to_string(),
            Status::Parked { site, .. } => site,
            Status::Exited { panicked } => if panicked { "DEAD".to_string() } else { "END".to_string() },
        })).collect()
    }
}

fn idle_op() -> Op { Op { op: "none".to_string(), k: -1, v: -1, w: -1, ttl: -1, ..Default::default() } }

fn norm_op(op: &Op) -> Op {
    let mut op = op.clone();
    if op.var.is_empty() { op.var = "get".to_string(); }
    op
}

impl<'a> Driver<'a> {
    fn emit(&mut self, record: &StepRec) {
        serde_json::to_writer(&mut *self.out, record).unwrap();
        self.out.write_all(b"\n").unwrap();
    }

    pub fn run(&mut self, scenario: &Scenario) -> RunOutcome {
        let cfg = scenario.cfg.clone();
        let yield_sites: Option<HashSet<String>> = if scenario.yield_sites.is_empty() { None } else {
            let mut sites: HashSet<String> = scenario.yield_sites.iter().cloned().collect();
            sites.insert("C_Idle".to_string());
            Some(sites)
        };
        let sched = Sched::new(yield_sites);
        let clock = HarnessClock { secs: Arc::new(AtomicI64::new(cfg.clock0)), nanos: Arc::new(AtomicI64::new(0)) };

        verif::install(sched.clone(), "main");
        let (wf_base, wf_mod, wf_ttl) = (cfg.wf_base, cfg.wf_mod.max(1), cfg.wf_ttl);
        let mut builder = ConfigBuilder::<u64, u64>::new(cfg.counters, cfg.capacity, if cfg.max_weight > BIG { i64::MAX - (cfg.max_weight - BIG - 1) } else { cfg.max_weight })
            .shards(cfg.shards)
            .command_buffer_size(cfg.qsize)
            .access_pool_size(cfg.pool)
            .access_buffer_size(cfg.buffer)
            .clock(Box::new(clock.clone()))
            .ttl_tick_duration(Duration::from_millis(1));
        if !cfg.default_weight_fn {
            builder = builder.weight_calculation_fn(Box::new(move |key: &u64, _value: &u64, has_ttl: bool| {
                wf_base + (*key as i64 % wf_mod) + if has_ttl { wf_ttl } else { 0 }
            }));
        }
        match cfg.hash.as_str() {
            "id" => { builder = builder.key_hash_fn(Box::new(|key: &u64| *key)); }
            "const" => { builder = builder.key_hash_fn(Box::new(|_key: &u64| 7)); }
            _ => {}
        }
        let cache = Arc::new(CacheD::new(builder.build()));
        for (key, count) in &scenario.freq {
            let hash = match cfg.hash.as_str() { "id" => *key as u64, "const" => 7, _ => *key as u64 };
            cache.verif_record_access(hash, *count);
        }
        let shared = Arc::new(Shared {
            cache: cache.clone(),
            next_op: Mutex::new(HashMap::new()),
            rets: Mutex::new(HashMap::new()),
            acks: Mutex::new(HashMap::new()),
            wakers: Mutex::new(HashMap::new()),
            stop: std::sync::atomic::AtomicBool::new(false),
        });

        // caller threads
        let mut joins = Vec::new();
        for role in scenario.programs.keys() {
            let role = role.clone();
            let shared = shared.clone();
            let sink = sched.clone();
            joins.push(std::thread::spawn(move || {
                let _guard = verif::adopt(Some(sink), &role);
                loop {
                    verif::point("C_Idle", 0);
                    let op = shared.next_op.lock().unwrap().remove(&role);
                    let op = match op { Some(op) => op, None => break };
                    if op.op == "stop" { break; }
                    let ret = match catch_unwind(AssertUnwindSafe(|| exec(&shared, &role, &op))) {
                        Ok(ret) => ret,
                        Err(_) => RetRec { st: -1, v: -1, exp: -1, panic: true, ..Default::default() },
                    };
                    shared.rets.lock().unwrap().insert(role.clone(), ret);
                }
            }));
        }

        let timeout = self.step_timeout;
        let mut roles: Vec<String> = vec!["worker".to_string(), "sweeper".to_string(), "consumer".to_string()];
        roles.extend(scenario.programs.keys().cloned());
        let mut hang: Option<String> = None;
        for role in &roles {
            if sched.wait_settled(role, timeout).is_err() {
                hang = Some(format!("{} never reached its first schedule point", role));
            }
        }

        let mut ctl = Ctl {
            sched: sched.clone(), shared: shared.clone(), clock: clock.clone(), cfg: cfg.clone(),
            ack_numbers: HashMap::new(), ack_handles: Vec::new(), current_op: HashMap::new(),
            sweeper_holds: None, last_ttl: Vec::new(), last_used: 0, last_buf: Vec::new(), hash_to_key: HashMap::new(), last_acks: HashMap::new(),
            blocked: None, full_send: false, holders: HashMap::new(),
        };
        let _ = &ctl.hash_to_key;
        let mut step_no: i64 = 0;
        let lock_names: HashMap<i64, String> = cache.verif_lock_ids().into_iter().collect();
        sched.set_lock_filter(lock_names.keys().copied().collect());
        let _ = sched.drain_events();
        let mut state = ctl.state();
        self.emit(&StepRec {
            t: "reset".to_string(), run: self.run_no, i: 0, actor: "env".to_string(), site: "E_Init".to_string(), arg: 0,
            next: "".to_string(), narg: 0, op: idle_op(), ret: RetRec { st: -1, v: -1, exp: -1, ..Default::default() }, ev: Vec::new(), truth: Vec::new(), freq: scenario.freq.iter().map(|(key, count)| vec![*key, *count as i64]).collect(),
            pc: ctl.pcs(), s: state.clone(), unb: 0, cfg: Some(cfg.clone()),
        });

        let mut cursor: HashMap<String, usize> = HashMap::new();
        let mut schedule_log: Vec<ListStep> = Vec::new();
        let max_steps = if scenario.max_steps == 0 { 20000 } else { scenario.max_steps };
        let mut stuck = false;

        let (mut rng, stall_sweeper, stall_consumer, advance_pct, max_advance, sweeper_pct, sticky_pct, worker_pct, full_send_pct) = match &scenario.schedule {
            Schedule::Random { seed, stall_sweeper, stall_consumer, advance_pct, max_advance, sweeper_pct, sticky_pct, worker_pct, full_send_pct } =>
                (StdRng::seed_from_u64(*seed), *stall_sweeper, *stall_consumer, *advance_pct, (*max_advance).max(1), *sweeper_pct, *sticky_pct,
                 if *worker_pct == 0 { 100 } else { *worker_pct }, *full_send_pct),
            Schedule::List { .. } => (StdRng::seed_from_u64(0), false, false, 0, 1, 100, 0, 100, 100),
        };
        ctl.full_send = full_send_pct > 0;
        let mut held_events: Vec<crate::sched::Ev> = Vec::new();
        let mut last_actor: Option<String> = None;
        let list: Option<Vec<ListStep>> = match &scenario.schedule { Schedule::List { steps, .. } => Some(steps.clone()), _ => None };
        let then_drain = match &scenario.schedule { Schedule::List { then_drain, .. } => *then_drain, _ => true };
        let mut list_pos = 0usize;
        let mut pending_polls: HashMap<String, u32> = HashMap::new();
        let mut idle_steps = 0usize;
        let mut imprecise = false;
        let mut id_key: HashMap<i64, i64> = HashMap::new();

        while hang.is_none() && !imprecise && (step_no as usize) < max_steps {
            // ---- choose
            let mut choice: Option<(String, i64)> = None; // (actor, advance)
            let in_list = list.as_ref().map(|steps| list_pos < steps.len()).unwrap_or(false);
            // a sender that was blocked on the full queue has come loose: its step is recorded now
            let resumed = match &ctl.blocked {
                Some((role, _)) => !matches!(sched.status(role), Some(Status::Running)),
                None => false,
            };
            if resumed {
                choice = Some((ctl.blocked.as_ref().unwrap().0.clone(), 0));
            } else if in_list {
                let steps = list.as_ref().unwrap();
                let step = &steps[list_pos];
                list_pos += 1;
                if step.a == "env" {
                    choice = Some(("env".to_string(), step.d));
                } else {
                    let at = ctl.site_of(&step.a).map(|pair| pair.0);
                    let site_ok = step.s.is_empty() || at.as_deref() == Some(step.s.as_str());
                    if site_ok && ctl.enabled(&step.a, &state, &scenario.programs, &cursor) {
                        choice = Some((step.a.clone(), 0));
                    } else {
                        // the planned step is not possible here: the implementation chose differently; fall back to draining
                        self.emit(&StepRec {
                            t: "note".to_string(), run: self.run_no, i: step_no, actor: step.a.clone(), site: "E_Infeasible".to_string(), arg: 0,
                            next: at.unwrap_or_default(), narg: 0, op: idle_op(), ret: RetRec { st: -1, v: -1, exp: -1, ..Default::default() },
                            ev: Vec::new(), truth: Vec::new(), freq: Vec::new(), pc: ctl.pcs(), s: state.clone(), unb: 0, cfg: None,
                        });
                        list_pos = steps.len();
                        continue;
                    }
                }
            } else {
                if list.is_some() && !then_drain { break; }
                let mut candidates: Vec<(String, u32)> = Vec::new();
                for role in &roles {
                    if !ctl.enabled(role, &state, &scenario.programs, &cursor) { continue; }
                    let site = ctl.site_of(role).unwrap().0;
                    let weight = match role.as_str() {
                        "sweeper" => if stall_sweeper && site == "S_Tick" { 0 } else if site == "S_Tick" { sweeper_pct.max(1) } else { 100 },
                        "consumer" => if stall_consumer { 0 } else { 100 },
                        "worker" => if site == "W_Recv" { worker_pct } else { worker_pct.max(30) },
                        _ if site == "C_Send" && (state.qlen as usize) >= cfg.qsize && !matches!(sched.status("worker"), Some(Status::Exited { .. })) => full_send_pct,
                        _ => {
                            if site == "C_Poll" {
                                let op = ctl.current_op.get(role).cloned().unwrap_or_default();
                                let done = shared.acks.lock().unwrap().get(&op.r#ref).map(|ack| ack.handle().verif_peek().0).unwrap_or(true);
                                if done { 100 } else {
                                    let used = pending_polls.get(role).copied().unwrap_or(0);
                                    if used < 2 { 15 } else { 0 }
                                }
                            } else { 100 }
                        }
                    };
                    if weight > 0 { candidates.push((role.clone(), weight)); }
                }
                // callers all done?
                let callers_done = scenario.programs.keys().all(|role| {
                    matches!(sched.status(role), Some(Status::Exited { .. })) ||
                        (ctl.site_of(role).map(|pair| pair.0 == "C_Idle").unwrap_or(false)
                            && cursor.get(role).copied().unwrap_or(0) >= scenario.programs[role].len())
                });
                if callers_done {
                    // drain: background threads run until nothing is left to do
                    candidates.retain(|(role, _)| {
                        let site = ctl.site_of(role).map(|pair| pair.0).unwrap_or_default();
                        !(role == "sweeper" && site == "S_Tick")
                    });
                    if candidates.is_empty() { break; }
                } else if candidates.is_empty() || (advance_pct > 0 && rng.gen_range(0..100) < advance_pct) {
                    if advance_pct > 0 {
                        choice = Some(("env".to_string(), rng.gen_range(1..=max_advance)));
                    } else if candidates.is_empty() {
                        // only pending polls left: allow them
                        let pollers: Vec<String> = roles.iter().filter(|role| ctl.site_of(role).map(|pair| pair.0 == "C_Poll").unwrap_or(false)).cloned().collect();
                        let sweep = ctl.site_of("sweeper").map(|pair| pair.0 == "S_Tick").unwrap_or(false) && !stall_sweeper;
                        if sweep { choice = Some(("sweeper".to_string(), 0)); }
                        else if let Some(role) = pollers.first() { pending_polls.insert(role.clone(), 0); continue; }
                        else { stuck = true; break; }
                    }
                }
                if choice.is_none() && sticky_pct > 0 {
                    if let Some(last) = &last_actor {
                        if candidates.iter().any(|(role, _)| role == last) && rng.gen_range(0..100) < sticky_pct {
                            choice = Some((last.clone(), 0));
                        }
                    }
                }
                if choice.is_none() {
                    if candidates.is_empty() { stuck = true; break; }
                    let total: u32 = candidates.iter().map(|candidate| candidate.1).sum();
                    let mut pick = rng.gen_range(0..total);
                    for (role, weight) in &candidates {
                        if pick < *weight { choice = Some((role.clone(), 0)); break; }
                        pick -= *weight;
                    }
                }
            }
            let (mut actor, advance) = choice.unwrap();
            if (actor == "env" || actor == "sweeper") && idle_steps > 200 && list.is_none() {
                // only the clock and the sweeper have moved for a long time: if anything else can move, it is the schedule
                // that starves it (a small eagerness), not the code; let it run
                if let Some(role) = roles.iter().find(|role| role.as_str() != "sweeper" && ctl.enabled(role, &state, &scenario.programs, &cursor)
                                                      && !(role.as_str() == "consumer" && stall_consumer)
                                                      && ctl.site_of(role).map(|pair| pair.0 != "C_Poll").unwrap_or(false)) {
                    actor = role.clone();
                }
            }
            if actor != "env" { last_actor = Some(actor.clone()); }
            if actor == "env" || actor == "sweeper" { idle_steps += 1; } else { idle_steps = 0; }
            if idle_steps > 400 && list.is_none() { stuck = true; break; }

            // ---- execute
            step_no += 1;
            if actor == "env" {
                clock.secs.fetch_add(advance, Ordering::SeqCst);
                schedule_log.push(ListStep { a: "env".to_string(), s: "E_Advance".to_string(), d: advance });
                state = ctl.state();
                let mut op = idle_op();
                op.d = advance;
                self.emit(&StepRec {
                    t: "step".to_string(), run: self.run_no, i: step_no, actor, site: "E_Advance".to_string(), arg: advance,
                    next: "E_Advance".to_string(), narg: 0, op, ret: RetRec { st: -1, v: -1, exp: -1, ..Default::default() }, ev: Vec::new(), truth: Vec::new(), freq: Vec::new(),
                    pc: ctl.pcs(), s: state.clone(), unb: 0, cfg: None,
                });
                continue;
            }
            let (site, arg) = if resumed { ("C_Send".to_string(), ctl.blocked.as_ref().unwrap().1) } else { ctl.site_of(&actor).unwrap() };
            if !resumed { schedule_log.push(ListStep { a: actor.clone(), s: site.clone(), d: 0 }); }
            let probing = !resumed && site == "C_Send" && (state.qlen as usize) >= cfg.qsize
                && !matches!(sched.status("worker"), Some(Status::Exited { .. }));
            if site == "C_Idle" {
                let position = cursor.get(&actor).copied().unwrap_or(0);
                let mut op = norm_op(&scenario.programs[&actor][position]);
                if op.id == 0 { op.id = (position as i64 + 1) + 1000 * (1 + scenario.programs.keys().position(|role| role == &actor).unwrap() as i64); }
                cursor.insert(actor.clone(), position + 1);
                shared.next_op.lock().unwrap().insert(actor.clone(), op.clone());
                ctl.current_op.insert(actor.clone(), op);
                pending_polls.insert(actor.clone(), 0);
            }
            if site == "C_Poll" { *pending_polls.entry(actor.clone()).or_insert(0) += 1; }
            if actor == "sweeper" && site == "S_Sweep" { ctl.sweeper_holds = Some(arg); }
            let settled = if resumed {
                ctl.blocked = None;
                Ok(sched.status(&actor).unwrap())
            } else if probing {
                // the queue is full: the send must not return before the worker has made room
                sched.grant(&actor);
                match sched.wait_settled(&actor, Duration::from_millis(120)) {
                    Ok(status) => Ok(status),
                    Err(_) => {
                        ctl.blocked = Some((actor.clone(), arg));
                        held_events.extend(sched.drain_events().into_iter().filter(|ev| ev.role == actor));
                        self.emit(&StepRec {
                            t: "note".to_string(), run: self.run_no, i: step_no, actor: actor.clone(), site: "E_Blocked".to_string(), arg: 0,
                            next: "C_Send".to_string(), narg: 0, op: idle_op(), ret: RetRec { st: -1, v: -1, exp: -1, ..Default::default() },
                            ev: Vec::new(), truth: Vec::new(), freq: Vec::new(), pc: ctl.pcs(), s: state.clone(), unb: 0, cfg: None,
                        });
                        step_no -= 1;
                        continue;
                    }
                }
            } else { sched.step(&actor, timeout) };
            // a blocked sender comes loose when the worker takes a command off the queue: wait for it, so that the state
            // recorded for this step is not taken while it is pushing
            let mut unb = 0;
            if let Some((blocked, _)) = ctl.blocked.clone() {
                if actor == "worker" && (site == "W_Recv" || site == "W_Drain") && settled.is_ok() {
                    if sched.wait_settled(&blocked, Duration::from_millis(1500)).is_ok() { unb = 1; }
                }
            }
            let (next, narg) = match settled {
                Ok(Status::Parked { site, arg }) => (site, arg),
                Ok(Status::Exited { panicked }) => (if panicked { "DEAD".to_string() } else { "END".to_string() }, 0),
                Ok(Status::Running) => unreachable!(),
                Err(_) => {
                    // Is the thread waiting for a lock that a PARKED thread holds (an artefact of parking a thread inside a
                    // critical section), or is there a real cycle? Let the other threads move and see whether it comes loose.
                    let mut resolved = false;
                    'resolve: for _round in 0..4 {
                        for other in &roles {
                            if other == &actor { continue; }
                            if let Some(Status::Parked { .. }) = sched.status(other) {
                                sched.grant(other);
                                let _ = sched.wait_settled(other, Duration::from_millis(1500));
                                if !matches!(sched.status(&actor), Some(Status::Running)) { resolved = true; break 'resolve; }
                            }
                        }
                    }
                    if resolved {
                        imprecise = true;
                        ("IMPRECISE".to_string(), 0)
                    } else {
                        hang = Some(format!("{} granted at {} did not reach its next schedule point, and letting every other thread run did not release it", actor, site));
                        ("HANG".to_string(), 0)
                    }
                }
            };
            if actor == "sweeper" && (next == "S_Done" || next == "S_Tick" || next == "END" || next == "DEAD") { ctl.sweeper_holds = None; }
            // events, with acknowledgement pointers replaced by small numbers
            let mut events = Vec::new();
            let mut drained = sched.drain_events();
            if resumed {
                let mut all = std::mem::take(&mut held_events);
                all.extend(drained);
                drained = all;
            } else if let Some((blocked, _)) = &ctl.blocked {
                let (theirs, others): (Vec<_>, Vec<_>) = drained.into_iter().partition(|ev| &ev.role == blocked && ev.name != "lk" && ev.name != "q");
                held_events.extend(theirs);
                drained = others;
            }
            for ev in drained {
                if ev.name == "lk" && ev.fields.len() >= 3 {
                    if ev.fields[0] == verif::LK_GOT { ctl.holders.entry(ev.fields[1]).or_default().push((ev.role.clone(), ev.fields[2])); }
                    if ev.fields[0] == verif::LK_REL {
                        if let Some(held) = ctl.holders.get_mut(&ev.fields[1]) {
                            if let Some(position) = held.iter().position(|(role, mode)| role == &ev.role && *mode == ev.fields[2]) { held.remove(position); }
                        }
                    }
                }
                if ev.name == "lk" || ev.name == "q" {
                    if let Some(locks) = self.locks.as_mut() {
                        let name = |address: i64, ctl: &Ctl| -> String {
                            if let Some(name) = lock_names.get(&address) { return name.clone(); }
                            for (_, ack) in &ctl.ack_handles {
                                for (id, name) in ack.handle().verif_lock_ids() { if id == address { return name; } }
                            }
                            for ack in shared.acks.lock().unwrap().values() {
                                for (id, name) in ack.handle().verif_lock_ids() { if id == address { return name; } }
                            }
                            "ackOther".to_string()
                        };
                        let record = if ev.name == "lk" {
                            serde_json::json!({"run": self.run_no, "i": step_no, "role": ev.role, "site": site, "e": "lk", "op": ev.fields[0], "l": name(ev.fields[1], &ctl), "m": ev.fields[2]})
                        } else {
                            serde_json::json!({"run": self.run_no, "i": step_no, "role": ev.role, "site": site, "e": "q", "op": ev.fields[0], "l": format!("q{}", ev.fields[1]), "m": 1})
                        };
                        serde_json::to_writer(&mut **locks, &record).unwrap();
                        locks.write_all(b"\n").unwrap();
                    }
                    continue;
                }
                let mut fields = ev.fields.clone();
                if matches!(ev.name.as_str(), "send" | "recv" | "done") && !fields.is_empty() {
                    fields[0] = ctl.ack_number(fields[0]);
                }
                let fields = fields.into_iter().map(clamp).collect();
                events.push(EvRec { e: ev.name, f: fields });
            }
            let mut ret = RetRec { st: -1, v: -1, exp: -1, ..Default::default() };
            let mut op = if actor.starts_with('c') && actor != "consumer" { ctl.current_op.get(&actor).cloned().unwrap_or_else(idle_op) } else { idle_op() };
            if op.var.is_empty() { op.var = "get".to_string(); }
            if next == "C_Idle" || ((next == "END" || next == "DEAD") && actor.starts_with('c') && actor != "consumer") {
                if let Some(result) = shared.rets.lock().unwrap().remove(&actor) {
                    ret = result;
                    if ret.ack != 0 {
                        ret.ack = ctl.ack_number(ret.ack);
                        if !ctl.ack_handles.iter().any(|(number, _)| *number == ret.ack) {
                            if let Some(ack) = shared.acks.lock().unwrap().get(&op.id).cloned() {
                                if op.op != "poll" && op.op != "await" { ctl.ack_handles.push((ret.ack, ack)); }
                            }
                        }
                    }
                }
            }
            // what the sketch really estimates for the keys named in this step's admission events
            let mut truth: Vec<Vec<i64>> = Vec::new();
            let events_for_truth: Vec<EvRec> = if hang.is_none() && !imprecise { events.clone() } else { Vec::new() };
            for event in &events {
                if event.e == "send" && event.f.len() > 2 && event.f[2] > 0 {
                    if let Some(current) = ctl.current_op.get(&actor) { id_key.insert(event.f[2], current.k); }
                }
            }
            for entry in &state.kw { id_key.insert(entry.id, entry.k); }
            for event in &events_for_truth {
                let ids: Vec<i64> = match event.e.as_str() {
                    "sample" | "refill" => { let mut ids = vec![event.f[0]]; ids.extend(event.f.iter().skip(2).step_by(3).copied()); ids }
                    "victim" => vec![event.f[0]],
                    _ => Vec::new(),
                };
                for id in ids {
                    if truth.iter().any(|pair| pair[0] == id) { continue; }
                    if let Some(key) = id_key.get(&id) {
                        let hash = match cfg.hash.as_str() {
                            "id" => *key as u64,
                            "const" => 7,
                            _ => { use std::hash::{Hash, Hasher}; let mut hasher = std::collections::hash_map::DefaultHasher::new(); (*key as u64).hash(&mut hasher); hasher.finish() }
                        };
                        truth.push(vec![id, cache.verif_estimate(hash) as i64]);
                    }
                }
            }
            // (after a hang the blocked thread may hold map guards: do not touch the cache any more)
            // A thread that sits at a send (parked there, or blocked in it) may be keeping a map guard alive (an artefact of parking
            // it there, or the real thing): the projection would then block the controller for ever. Probe it from a helper thread
            // first; if the store cannot be read, the run ends here and everything is released: a deadlock that is real shows then.
            if hang.is_none() && !imprecise {
                let at_send = ctl.blocked.is_some() || roles.iter().any(|role| matches!(sched.status(role), Some(Status::Parked { site, .. }) if site == "C_Send"));
                if at_send {
                    let (probe_sender, probe_receiver) = std::sync::mpsc::channel();
                    let probe_cache = cache.clone();
                    std::thread::spawn(move || { let _ = probe_cache.verif_snapshot(&|key| *key as i64, &|value| *value as i64); let _ = probe_sender.send(()); });
                    if probe_receiver.recv_timeout(Duration::from_secs(3)).is_err() { imprecise = true; }
                }
            }
            if hang.is_none() && !imprecise { state = ctl.state(); }
            for entry in &state.kw { id_key.insert(entry.id, entry.k); }
            self.emit(&StepRec {
                t: "step".to_string(), run: self.run_no, i: step_no, actor: actor.clone(), site, arg: clamp(arg), next, narg: clamp(narg),
                op, ret, ev: events, truth, freq: Vec::new(), pc: ctl.pcs(), s: state.clone(), unb, cfg: None,
            });
        }

        // ---- end of run
        self.emit(&StepRec {
            t: "end".to_string(), run: self.run_no, i: step_no + 1, actor: "env".to_string(),
            site: if hang.is_some() { "E_Hang".to_string() } else if imprecise { "E_Imprecise".to_string() } else if stuck { "E_Stuck".to_string() } else { "E_End".to_string() },
            arg: 0, next: "".to_string(), narg: 0, op: idle_op(), ret: RetRec { st: -1, v: -1, exp: -1, ..Default::default() }, ev: Vec::new(), truth: Vec::new(), freq: Vec::new(),
            pc: ctl.pcs(), s: state.clone(), unb: 0, cfg: None,
        });
        let outcome = RunOutcome { imprecise, steps: step_no as usize, hang: hang.clone(), stuck, schedule: schedule_log };
        if hang.is_some() {
            // threads may be blocked for ever: the caller of run() must end the process
            return outcome;
        }
        // teardown: let everything run freely, stop callers, shut the cache down
        shared.next_op.lock().unwrap().clear();
        shared.stop.store(true, Ordering::SeqCst);
        sched.free();
        // the rest runs freely (real concurrency): a stall here is a real deadlock, not an artefact of the scheduler
        let (done_sender, done_receiver) = std::sync::mpsc::channel();
        {
            let cache = cache.clone();
            std::thread::spawn(move || {
                cache.shutdown();
                for join in joins { let _ = join.join(); }
                let _ = done_sender.send(());
            });
        }
        verif::uninstall();
        if done_receiver.recv_timeout(self.step_timeout * 2).is_err() {
            return RunOutcome { imprecise, steps: outcome.steps, hang: Some("the run did not wind down when every thread was released (free-running deadlock)".to_string()),
                                stuck: outcome.stuck, schedule: outcome.schedule };
        }
        outcome
    }
}
