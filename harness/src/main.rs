mod sched;
mod model;
mod driver;
mod gen;
mod ackrun;
mod sketchrun;
mod stress;
mod hist;

use std::io::{BufRead, BufWriter, Write};
use std::time::Duration;

fn arg_value(args: &[String], name: &str) -> Option<String> {
    args.iter().position(|arg| arg == name).and_then(|index| args.get(index + 1).cloned())
}

fn main() {
    let args: Vec<String> = std::env::args().collect();
    let command = args.get(1).cloned().unwrap_or_default();
    match command.as_str() {
        "run" => {
            let scenarios = arg_value(&args, "--scenarios").expect("--scenarios");
            let out_path = arg_value(&args, "--out").expect("--out");
            let timeout_ms: u64 = arg_value(&args, "--timeout-ms").map(|value| value.parse().unwrap()).unwrap_or(10_000);
            let quiet_panics = !args.iter().any(|arg| arg == "--show-panics");
            if quiet_panics { std::panic::set_hook(Box::new(|_| {})); }
            let input = std::io::BufReader::new(std::fs::File::open(&scenarios).expect("open scenarios"));
            let mut out = BufWriter::new(std::fs::File::create(&out_path).expect("create out"));
            let mut lock_out = arg_value(&args, "--locks").map(|path| BufWriter::new(std::fs::File::create(&path).expect("create locks")));
            let mut summary = Vec::new();
            let mut run_no = 0;
            for line in input.lines() {
                let line = line.unwrap();
                if line.trim().is_empty() { continue; }
                let scenario: model::Scenario = serde_json::from_str(&line).expect("scenario json");
                run_no += 1;
                let outcome = {
                    let mut driver = driver::Driver { out: &mut out, locks: lock_out.as_mut().map(|writer| writer as &mut dyn Write), run_no, step_timeout: Duration::from_millis(timeout_ms) };
                    driver.run(&scenario)
                };
                summary.push(serde_json::json!({"run": run_no, "name": scenario.name, "steps": outcome.steps, "hang": outcome.hang, "stuck": outcome.stuck, "imprecise": outcome.imprecise}));
                if outcome.hang.is_some() {
                    out.flush().unwrap();
                    if let Some(writer) = lock_out.as_mut() { writer.flush().unwrap(); }
                    let replay = serde_json::json!({"scenario": scenario, "schedule": outcome.schedule});
                    println!("HANG {}", replay);
                    println!("SUMMARY {}", serde_json::Value::Array(summary));
                    std::process::exit(3);
                }
            }
            out.flush().unwrap();
            if let Some(writer) = lock_out.as_mut() { writer.flush().unwrap(); }
            println!("SUMMARY {}", serde_json::Value::Array(summary));
        }
        "ackrun" => {
            let scenarios = arg_value(&args, "--scenarios").expect("--scenarios");
            let out_path = arg_value(&args, "--out").expect("--out");
            let timeout_ms: u64 = arg_value(&args, "--timeout-ms").map(|value| value.parse().unwrap()).unwrap_or(10_000);
            std::panic::set_hook(Box::new(|_| {}));
            let input = std::io::BufReader::new(std::fs::File::open(&scenarios).expect("open scenarios"));
            let mut out = BufWriter::new(std::fs::File::create(&out_path).expect("create out"));
            let mut summary = Vec::new();
            let mut run_no = 0;
            for line in input.lines() {
                let line = line.unwrap();
                if line.trim().is_empty() { continue; }
                let scenario: ackrun::AckScenario = serde_json::from_str(&line).expect("ack scenario json");
                run_no += 1;
                let outcome = ackrun::run(&mut out, run_no, &scenario, Duration::from_millis(timeout_ms));
                summary.push(serde_json::json!({"run": run_no, "name": scenario.name, "steps": outcome.steps, "hang": outcome.hang, "stuck": outcome.infeasible}));
                if outcome.hang.is_some() {
                    out.flush().unwrap();
                    println!("HANG {}", serde_json::json!({"scenario": scenario, "schedule": outcome.schedule}));
                    println!("SUMMARY {}", serde_json::Value::Array(summary));
                    std::process::exit(3);
                }
            }
            out.flush().unwrap();
            println!("SUMMARY {}", serde_json::Value::Array(summary));
        }
        "sketchrun" => {
            let out_path = arg_value(&args, "--out").expect("--out");
            let seed: u64 = arg_value(&args, "--seed").map(|value| value.parse().unwrap()).unwrap_or(1);
            let runs: usize = arg_value(&args, "--runs").map(|value| value.parse().unwrap()).unwrap_or(50);
            let extra: usize = arg_value(&args, "--rows").map(|value| value.parse().unwrap()).unwrap_or(500);
            std::panic::set_hook(Box::new(|_| {}));
            let mut out = BufWriter::new(std::fs::File::create(&out_path).expect("create out"));
            let result = std::panic::catch_unwind(std::panic::AssertUnwindSafe(|| {
                let tour = sketchrun::tour(&mut out, seed, extra);
                let accesses = sketchrun::streams(&mut out, seed, runs);
                (tour, accesses)
            }));
            out.flush().unwrap();
            match result {
                Ok((tour, accesses)) => println!("SUMMARY {}", serde_json::json!([{"run": 1, "name": "sketch", "steps": tour + accesses, "hang": null, "stuck": false, "tour": tour, "accesses": accesses}])),
                Err(_) => { println!("PANIC in the sketch code under test"); std::process::exit(4); }
            }
        }
        "stress" => {
            let seed: u64 = arg_value(&args, "--seed").map(|value| value.parse().unwrap()).unwrap_or(1);
            let rounds: usize = arg_value(&args, "--rounds").map(|value| value.parse().unwrap()).unwrap_or(20);
            let threads: usize = arg_value(&args, "--threads").map(|value| value.parse().unwrap()).unwrap_or(4);
            let ops: usize = arg_value(&args, "--ops").map(|value| value.parse().unwrap()).unwrap_or(300);
            let timeout_ms: u64 = arg_value(&args, "--timeout-ms").map(|value| value.parse().unwrap()).unwrap_or(20_000);
            std::panic::set_hook(Box::new(|_| {}));
            let reads_pct: u32 = arg_value(&args, "--reads-pct").map(|value| value.parse().unwrap()).unwrap_or(0);
            let mut final_out = arg_value(&args, "--out").map(|path| BufWriter::new(std::fs::File::create(&path).expect("create out")));
            let shutdown_mid = args.iter().any(|arg| arg == "--shutdown-mid");
            let outcome = stress::run(seed, rounds, threads, ops, Duration::from_millis(timeout_ms), reads_pct, shutdown_mid,
                                      final_out.as_mut().map(|writer| writer as &mut dyn Write));
            if let Some(writer) = final_out.as_mut() { writer.flush().unwrap(); }
            println!("STRESS {}", serde_json::json!({"rounds": outcome.rounds, "ops": outcome.ops, "stall": outcome.stall}));
            if outcome.stall.is_some() { std::process::exit(3); }
        }
        "hist" => {
            let seed: u64 = arg_value(&args, "--seed").map(|value| value.parse().unwrap()).unwrap_or(1);
            let rounds: usize = arg_value(&args, "--rounds").map(|value| value.parse().unwrap()).unwrap_or(10);
            let writers: usize = arg_value(&args, "--writers").map(|value| value.parse().unwrap()).unwrap_or(3);
            let readers: usize = arg_value(&args, "--readers").map(|value| value.parse().unwrap()).unwrap_or(4);
            let ops: usize = arg_value(&args, "--ops").map(|value| value.parse().unwrap()).unwrap_or(300);
            let timeout_ms: u64 = arg_value(&args, "--timeout-ms").map(|value| value.parse().unwrap()).unwrap_or(20_000);
            std::panic::set_hook(Box::new(|_| {}));
            let out_path = arg_value(&args, "--out").expect("--out");
            let mut out = BufWriter::new(std::fs::File::create(&out_path).expect("create out"));
            let outcome = if arg_value(&args, "--mode").as_deref() == Some("contend") {
                hist::run_contend(seed, rounds, ops, readers, Duration::from_millis(timeout_ms), &mut out)
            } else if arg_value(&args, "--mode").as_deref() == Some("handover") {
                hist::run_handover(seed, rounds, ops, Duration::from_millis(timeout_ms), &mut out)
            } else if arg_value(&args, "--mode").as_deref() == Some("hot") {
                hist::run_hot(seed, rounds, readers, ops, Duration::from_millis(timeout_ms), &mut out)
            } else {
                hist::run(seed, rounds, writers, readers, ops, Duration::from_millis(timeout_ms), &mut out)
            };
            out.flush().unwrap();
            println!("STRESS {}", serde_json::json!({"rounds": outcome.rounds, "ops": outcome.calls, "stall": outcome.stall}));
            if outcome.stall.is_some() { std::process::exit(3); }
        }
        "gen" => {
            let profile = arg_value(&args, "--profile").expect("--profile");
            let seed: u64 = arg_value(&args, "--seed").map(|value| value.parse().unwrap()).unwrap_or(1);
            let count: usize = arg_value(&args, "--count").map(|value| value.parse().unwrap()).unwrap_or(10);
            let stdout = std::io::stdout();
            let mut out = BufWriter::new(stdout.lock());
            for scenario in gen::generate(&profile, seed, count) {
                serde_json::to_writer(&mut out, &scenario).unwrap();
                out.write_all(b"\n").unwrap();
            }
        }
        _ => {
            eprintln!("usage: harness run --scenarios <ndjson> --out <ndjson> [--timeout-ms N]");
            std::process::exit(2);
        }
    }
}
