//! Drives the real packed-counter row functions and the real TinyLFU (through the guarded probes) and records
//! every transition for TraceSketch.tla.
use std::io::Write;

use rand::rngs::StdRng;
use rand::{Rng, SeedableRng};
use serde_json::json;

use tinylfu_cached::cache::verif::{self, LfuProbe};

fn line(out: &mut dyn Write, value: serde_json::Value) {
    serde_json::to_writer(&mut *out, &value).unwrap();
    out.write_all(b"\n").unwrap();
}

/// one record per transition of the byte-level model: all 256 bytes x both nibbles, plus multi-byte rows and sizing
pub fn tour(out: &mut dyn Write, seed: u64, extra_rows: usize) -> usize {
    let mut count = 0;
    for byte in 0..=255u8 {
        for position in 0..2u64 {
            let mut inc = vec![byte];
            verif::row_increment_at(&mut inc, position);
            let get = verif::row_get_at(&[byte], position);
            let mut halve = vec![byte];
            verif::row_half_counters(&mut halve);
            line(out, json!({"t": "byte", "b": byte, "p": position, "inc": inc[0], "get": get, "halve": halve[0]}));
            count += 1;
        }
    }
    let mut rng = StdRng::seed_from_u64(seed);
    for _ in 0..extra_rows {
        let len = rng.gen_range(1..=4usize);
        let row: Vec<u8> = (0..len).map(|_| if rng.gen_bool(0.3) { *[0x0fu8, 0xf0, 0xff, 0xef, 0xfe, 0x7f, 0xf7].get(rng.gen_range(0..7)).unwrap() } else { rng.gen() }).collect();
        let position = rng.gen_range(0..(2 * len) as u64);
        let mut inc = row.clone();
        verif::row_increment_at(&mut inc, position);
        let get = verif::row_get_at(&row, position);
        let mut halve = row.clone();
        verif::row_half_counters(&mut halve);
        line(out, json!({"t": "row", "row": row, "p": position, "inc": inc, "get": get, "halve": halve}));
        count += 1;
    }
    for counters in 1..=70u64 {
        let probe = LfuProbe::new(counters);
        let rows = probe.rows();
        line(out, json!({"t": "size", "c": counters, "np2": verif::next_power_2(counters), "total": probe.total_counters(),
                         "rowlen": rows[0].len(), "nrows": rows.len(), "reset_at": probe.reset_counters_at()}));
        count += 1;
    }
    count
}

/// random access streams into the real TinyLFU
pub fn streams(out: &mut dyn Write, seed: u64, runs: usize) -> usize {
    let mut rng = StdRng::seed_from_u64(seed);
    let mut count = 0;
    for run in 1..=runs {
        let counters: u64 = *[1u64, 2, 3, 4, 5, 7, 8, 12, 16, 17, 20, 33, 40, 64].get(rng.gen_range(0..14)).unwrap();
        let mut probe = LfuProbe::new(counters);
        let key_count = rng.gen_range(1..=6u64);
        let hashes: Vec<u64> = (0..key_count).map(|index| if rng.gen_bool(0.5) { index + 1 } else { rng.gen_range(1..1_000_000) }).collect();
        let rows: Vec<Vec<u8>> = probe.rows();
        line(out, json!({"t": "reset", "run": run, "counters": counters, "rowlen": rows[0].len(), "total": probe.total_counters()}));
        let length = rng.gen_range(5..=(3 * counters as usize + 40).min(160));
        let hot = hashes[rng.gen_range(0..hashes.len())];
        let mut step = 0usize;
        while step < length {
            step += 1;
            // every third call or so is a BATCH (what the consumer of the access buffers hands over), checked as a whole
            if rng.gen_range(0..100) < 35 {
                let size = rng.gen_range(2..=6usize);
                let batch: Vec<u64> = (0..size).map(|_| if rng.gen_bool(0.55) { hot } else { hashes[rng.gen_range(0..hashes.len())] }).collect();
                let positions: Vec<[u64; 4]> = batch.iter().map(|hash| probe.positions(*hash)).collect();
                let has: Vec<bool> = batch.iter().map(|hash| probe.doorkeeper_has(*hash)).collect();
                probe.increment_access(batch.clone());
                let mut distinct = batch.clone();
                distinct.sort(); distinct.dedup();
                let ests: Vec<Vec<u64>> = distinct.iter().map(|hash| vec![*hash, probe.estimate(*hash) as u64]).collect();
                line(out, json!({"t": "batch", "run": run, "i": step, "hs": batch, "poss": positions, "has": has,
                                 "rows": probe.rows(), "total": probe.total_increments(), "ests": ests}));
                count += 1;
                continue;
            }
            let hash = if rng.gen_bool(0.55) { hot } else { hashes[rng.gen_range(0..hashes.len())] };
            let positions = probe.positions(hash);
            let has = probe.doorkeeper_has(hash);
            let est_before = probe.estimate(hash);
            probe.increment_access(vec![hash]);
            line(out, json!({"t": "acc", "run": run, "i": step, "h": hash, "pos": positions, "has": has, "est_before": est_before,
                             "rows": probe.rows(), "total": probe.total_increments(), "est": probe.estimate(hash),
                             "skest": probe.sketch_estimate(hash), "has_after": probe.doorkeeper_has(hash)}));
            count += 1;
        }
    }
    count
}
