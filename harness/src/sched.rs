//! Deterministic scheduler: exactly one instrumented thread runs between two schedule points.
//!
//! Threads of the cache (worker, sweeper, consumer) and the harness' caller threads all reach
//! `Sink::point`; in controlled mode a thread parks there until the controller grants it one step.
use std::collections::{BTreeMap, HashSet};
use std::sync::{Arc, Condvar, Mutex};
use std::time::{Duration, Instant};

use tinylfu_cached::cache::verif::Sink;

#[derive(Debug, Clone, PartialEq, Eq)]
pub enum Status {
    Running,
    Parked { site: String, arg: i64 },
    Exited { panicked: bool },
}

#[derive(Debug, Clone)]
pub struct Ev {
    pub role: String,
    pub name: String,
    pub fields: Vec<i64>,
}

struct TInfo {
    status: Status,
    grant: bool,
}

struct Inner {
    controlled: bool,
    /// None: every site yields
    yield_sites: Option<HashSet<String>>,
    threads: BTreeMap<String, TInfo>,
    events: Vec<Ev>,
    ref_read: BTreeMap<String, bool>,
    /// the locks in front of which an L_AcqR / L_AcqW point yields (the cache's own locks; not those of the acknowledgements)
    lock_filter: HashSet<i64>,
}

pub struct Sched {
    inner: Mutex<Inner>,
    cv: Condvar,
}

#[derive(Debug)]
pub enum WaitError {
    Timeout,
}

impl Sched {
    pub fn new(yield_sites: Option<HashSet<String>>) -> Arc<Sched> {
        Arc::new(Sched {
            inner: Mutex::new(Inner { controlled: true, yield_sites, threads: BTreeMap::new(), events: Vec::new(), ref_read: BTreeMap::new(), lock_filter: HashSet::new() }),
            cv: Condvar::new(),
        })
    }

    pub fn status(&self, role: &str) -> Option<Status> {
        self.inner.lock().unwrap().threads.get(role).map(|info| info.status.clone())
    }

    pub fn statuses(&self) -> BTreeMap<String, Status> {
        self.inner.lock().unwrap().threads.iter().map(|(role, info)| (role.clone(), info.status.clone())).collect()
    }

    pub fn drain_events(&self) -> Vec<Ev> {
        std::mem::take(&mut self.inner.lock().unwrap().events)
    }

    /// Waits until `role` is known and not running (parked or exited).
    pub fn wait_settled(&self, role: &str, timeout: Duration) -> Result<Status, WaitError> {
        let deadline = Instant::now() + timeout;
        let mut guard = self.inner.lock().unwrap();
        loop {
            if let Some(info) = guard.threads.get(role) {
                if info.status != Status::Running {
                    return Ok(info.status.clone());
                }
            }
            let now = Instant::now();
            if now >= deadline {
                return Err(WaitError::Timeout);
            }
            let (next, _) = self.cv.wait_timeout(guard, deadline - now).unwrap();
            guard = next;
        }
    }

    /// Lets the parked thread `role` run one step (up to its next schedule point) without waiting for it.
    pub fn grant(&self, role: &str) {
        let mut guard = self.inner.lock().unwrap();
        let info = guard.threads.get_mut(role).expect("grant: unknown role");
        assert!(matches!(info.status, Status::Parked { .. }), "grant: {} is not parked", role);
        info.grant = true;
        info.status = Status::Running;
        drop(guard);
        self.cv.notify_all();
    }

    /// Grant and wait for the thread to settle again.
    pub fn step(&self, role: &str, timeout: Duration) -> Result<Status, WaitError> {
        self.grant(role);
        self.wait_settled(role, timeout)
    }

    /// Releases every parked thread; from now on no thread parks.
    pub fn free(&self) {
        let mut guard = self.inner.lock().unwrap();
        guard.controlled = false;
        drop(guard);
        self.cv.notify_all();
    }

    pub fn set_lock_filter(&self, locks: HashSet<i64>) {
        self.inner.lock().unwrap().lock_filter = locks;
    }

    pub fn is_controlled(&self) -> bool {
        self.inner.lock().unwrap().controlled
    }
}

impl Sink for Sched {
    fn point(&self, role: &str, site: &'static str, arg: i64) {
        if role == "main" {
            return;
        }
        let mut guard = self.inner.lock().unwrap();
        if !guard.controlled {
            return;
        }
        if let Some(sites) = &guard.yield_sites {
            if !sites.contains(site) {
                return;
            }
        }
        if site.starts_with("L_Acq") && (guard.yield_sites.is_none() || !guard.lock_filter.contains(&arg)) {
            return;
        }
        // get_ref keeps the shard guard of the store alive while it records the access: no yield inside a guard
        if site == "C_Get" {
            guard.ref_read.insert(role.to_string(), arg == 1);
        }
        if site == "C_Access" && guard.ref_read.get(role).copied().unwrap_or(false) {
            return;
        }
        guard.threads.insert(role.to_string(), TInfo { status: Status::Parked { site: site.to_string(), arg }, grant: false });
        self.cv.notify_all();
        loop {
            if !guard.controlled {
                break;
            }
            if guard.threads.get(role).map(|info| info.grant).unwrap_or(false) {
                break;
            }
            guard = self.cv.wait(guard).unwrap();
        }
        if let Some(info) = guard.threads.get_mut(role) {
            info.grant = false;
            info.status = Status::Running;
        }
    }

    fn event(&self, role: &str, name: &'static str, fields: &[i64]) {
        let mut guard = self.inner.lock().unwrap();
        guard.events.push(Ev { role: role.to_string(), name: name.to_string(), fields: fields.to_vec() });
    }

    fn exit(&self, role: &str, panicked: bool) {
        let mut guard = self.inner.lock().unwrap();
        guard.threads.insert(role.to_string(), TInfo { status: Status::Exited { panicked }, grant: false });
        drop(guard);
        self.cv.notify_all();
    }
}
