//! Drives the real `CommandAcknowledgement` (done ∥ pollers) under the deterministic scheduler at the grain of
//! its individual shared-memory accesses (points D_* and P_*), recording every step for TraceAck.tla.
use std::collections::{BTreeMap, HashMap, HashSet};
use std::future::Future;
use std::io::Write;
use std::pin::Pin;
use std::sync::atomic::{AtomicUsize, Ordering};
use std::sync::{Arc, Mutex};
use std::task::{Context, Poll, Wake, Waker};
use std::time::Duration;

use rand::rngs::StdRng;
use rand::{Rng, SeedableRng};
use serde::{Deserialize, Serialize};

use tinylfu_cached::cache::command::acknowledgement::CommandAcknowledgement;
use tinylfu_cached::cache::command::{CommandStatus, RejectionReason};
use tinylfu_cached::cache::verif;

use crate::sched::{Sched, Status};

#[derive(Debug, Clone, Serialize, Deserialize)]
pub struct AckScenario {
    pub name: String,
    /// status code passed to done()
    pub status: i64,
    /// poller -> waker id used for each of its polls (equal ids = same waker)
    pub pollers: BTreeMap<String, Vec<i64>>,
    /// empty: random with `seed`
    #[serde(default)]
    pub steps: Vec<String>,
    #[serde(default)]
    pub seed: u64,
}

#[derive(Serialize)]
struct WakeRec { w: i64, n: i64 }

#[derive(Serialize)]
struct AckState { flag: bool, status: i64, wakes: Vec<WakeRec> }

#[derive(Serialize)]
struct AckRet { st: i64, ready: bool }

#[derive(Serialize)]
struct AckStep<'a> {
    t: &'a str,
    run: i64,
    i: i64,
    actor: String,
    site: String,
    next: String,
    w: i64,
    more: bool,
    returned: bool,
    ret: AckRet,
    s: AckState,
    #[serde(skip_serializing_if = "Option::is_none")]
    cfg: Option<&'a AckScenario>,
}

struct CountingWaker(AtomicUsize);

impl Wake for CountingWaker {
    fn wake(self: Arc<Self>) { self.0.fetch_add(1, Ordering::SeqCst); }
    fn wake_by_ref(self: &Arc<Self>) { self.0.fetch_add(1, Ordering::SeqCst); }
}

fn status_of(code: i64) -> CommandStatus {
    match code {
        1 => CommandStatus::Accepted,
        2 => CommandStatus::ShuttingDown,
        10 => CommandStatus::Rejected(RejectionReason::EnoughSpaceIsNotAvailableAndKeyFailedToEvictOthers),
        11 => CommandStatus::Rejected(RejectionReason::KeyWeightIsGreaterThanCacheWeight),
        12 => CommandStatus::Rejected(RejectionReason::KeyDoesNotExist),
        _ => CommandStatus::Rejected(RejectionReason::KeyAlreadyExists),
    }
}

pub struct AckOutcome { pub steps: usize, pub hang: Option<String>, pub schedule: Vec<String>, pub infeasible: bool }

pub fn run(out: &mut dyn Write, run_no: i64, scenario: &AckScenario, timeout: Duration) -> AckOutcome {
    let sites: HashSet<String> = ["A_Done", "A_Poll", "D_Status", "D_Flag", "D_Wake", "P_Lock", "P_Flag", "P_Status"].iter().map(|s| s.to_string()).collect();
    let sched = Sched::new(Some(sites));
    let ack = CommandAcknowledgement::verif_new();
    let wakers: Arc<Mutex<HashMap<i64, Arc<CountingWaker>>>> = Arc::new(Mutex::new(HashMap::new()));
    let results: Arc<Mutex<HashMap<String, (i64, bool)>>> = Arc::new(Mutex::new(HashMap::new()));
    let mut joins = Vec::new();
    {
        let (ack, sink, status) = (ack.clone(), sched.clone(), scenario.status);
        joins.push(std::thread::spawn(move || {
            let _guard = verif::adopt(Some(sink), "worker");
            verif::point("A_Done", 0);
            ack.verif_done(status_of(status));
        }));
    }
    for (role, polls) in &scenario.pollers {
        let (ack, sink, role, polls, wakers, results) = (ack.clone(), sched.clone(), role.clone(), polls.clone(), wakers.clone(), results.clone());
        joins.push(std::thread::spawn(move || {
            let _guard = verif::adopt(Some(sink), &role);
            for id in polls {
                verif::point("A_Poll", id);
                let counting = wakers.lock().unwrap().entry(id).or_insert_with(|| Arc::new(CountingWaker(AtomicUsize::new(0)))).clone();
                let waker = Waker::from(counting);
                let mut context = Context::from_waker(&waker);
                let mut handle = ack.handle();
                let result = match Pin::new(&mut handle).poll(&mut context) {
                    Poll::Ready(status) => (verif::status_code(&status), true),
                    Poll::Pending => (0, false),
                };
                results.lock().unwrap().insert(role.clone(), result);
            }
        }));
    }
    let mut roles: Vec<String> = vec!["worker".to_string()];
    roles.extend(scenario.pollers.keys().cloned());
    let mut hang = None;
    for role in &roles {
        if sched.wait_settled(role, timeout).is_err() { hang = Some(format!("{} never reached its first point", role)); }
    }
    let state = |wakers: &Arc<Mutex<HashMap<i64, Arc<CountingWaker>>>>| {
        let (flag, status) = ack.handle().verif_peek();
        let mut wakes: Vec<WakeRec> = wakers.lock().unwrap().iter().map(|(id, counting)| WakeRec { w: *id, n: counting.0.load(Ordering::SeqCst) as i64 }).collect();
        wakes.sort_by_key(|wake| wake.w);
        AckState { flag, status: status.map(|status| verif::status_code(&status)).unwrap_or(-1), wakes }
    };
    let emit = |out: &mut dyn Write, record: &AckStep| { serde_json::to_writer(&mut *out, record).unwrap(); out.write_all(b"\n").unwrap(); };
    emit(out, &AckStep { t: "reset", run: run_no, i: 0, actor: "env".into(), site: "".into(), next: "".into(), w: 0, more: false, returned: false,
                         ret: AckRet { st: -1, ready: false }, s: state(&wakers), cfg: Some(scenario) });

    let mut rng = StdRng::seed_from_u64(scenario.seed);
    let mut lock_holder: Option<String> = None;
    let mut polls_done: HashMap<String, usize> = HashMap::new();
    let mut step_no = 0i64;
    let mut schedule = Vec::new();
    let mut infeasible = false;
    let mut list_pos = 0usize;
    while hang.is_none() {
        let enabled: Vec<String> = roles.iter().filter(|role| match sched.status(role) {
            Some(Status::Parked { site, .. }) => !(matches!(site.as_str(), "P_Lock" | "D_Wake") && lock_holder.is_some()),
            _ => false,
        }).cloned().collect();
        if enabled.is_empty() { break; }
        let actor = if !scenario.steps.is_empty() {
            if list_pos >= scenario.steps.len() { enabled[0].clone() } else {
                let wanted = scenario.steps[list_pos].clone();
                list_pos += 1;
                if !enabled.contains(&wanted) { infeasible = true; break; }
                wanted
            }
        } else { enabled[rng.gen_range(0..enabled.len())].clone() };
        let (site, arg) = match sched.status(&actor) { Some(Status::Parked { site, arg }) => (site, arg), _ => unreachable!() };
        schedule.push(actor.clone());
        if site == "P_Lock" { lock_holder = Some(actor.clone()); }
        step_no += 1;
        let settled = sched.step(&actor, timeout);
        let next = match settled {
            Ok(Status::Parked { site, .. }) => site,
            Ok(Status::Exited { panicked }) => if panicked { "DEAD".to_string() } else { "END".to_string() },
            _ => { hang = Some(format!("{} at {} did not reach its next point", actor, site)); "HANG".to_string() }
        };
        let returned = actor != "worker" && matches!(site.as_str(), "P_Flag" | "P_Status") && matches!(next.as_str(), "A_Poll" | "END" | "DEAD");
        if returned && lock_holder.as_deref() == Some(actor.as_str()) { lock_holder = None; }
        if actor != "worker" && matches!(next.as_str(), "END" | "DEAD") && lock_holder.as_deref() == Some(actor.as_str()) { lock_holder = None; }
        let ret = if returned {
            *polls_done.entry(actor.clone()).or_insert(0) += 1;
            let (st, ready) = results.lock().unwrap().get(&actor).copied().unwrap_or((-1, false));
            AckRet { st, ready }
        } else { AckRet { st: -1, ready: false } };
        let total = scenario.pollers.get(&actor).map(|polls| polls.len()).unwrap_or(0);
        let started = polls_done.get(&actor).copied().unwrap_or(0);
        // "more": after the poll in progress the poller polls again
        let more = actor != "worker" && started + if returned { 0 } else { 1 } < total;
        let w = if site == "A_Poll" { arg } else { 0 };
        emit(out, &AckStep { t: "step", run: run_no, i: step_no, actor: actor.clone(), site, next, w, more, returned, ret, s: state(&wakers), cfg: None });
    }
    emit(out, &AckStep { t: "end", run: run_no, i: step_no + 1, actor: "env".into(), site: if infeasible { "E_Infeasible".into() } else { "E_End".into() },
                         next: "".into(), w: 0, more: false, returned: false, ret: AckRet { st: -1, ready: false }, s: state(&wakers), cfg: None });
    if hang.is_none() {
        sched.free();
        for join in joins { let _ = join.join(); }
    }
    AckOutcome { steps: step_no as usize, hang, schedule, infeasible }
}
