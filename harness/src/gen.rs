//! Seeded generators of scenarios (random histories + scheduling parameters), one profile per concern.
use std::collections::BTreeMap;

use rand::rngs::StdRng;
use rand::seq::SliceRandom;
use rand::{Rng, SeedableRng};

use crate::model::*;

/// every schedule point except the ones inside the acknowledgement (those are exercised by the Ack checks)
pub const SYS_SITES: &[&str] = &[
    "C_Idle", "C_Poll", "C_PutCheck", "C_Send", "C_DelMark", "C_PouUpdate", "C_PouWeightOf", "T_UpdRemove", "T_UpdInsert",
    "T_Put", "T_Del", "C_Get", "C_Access", "C_ShutFlag", "C_ShutPolicy", "C_ShutTicker", "C_ShutStore", "C_ShutClearPolicy",
    "C_ShutClearTtl", "W_Recv", "W_Drain", "W_PutCheck", "A_Space", "A_Sample", "K_DelKw", "K_DelUsed", "K_AddKw",
    "K_AddUsed", "W_StorePut", "K_Update", "W_DelStore", "S_Tick", "S_Sweep", "S_Done", "R_Recv", "R_Apply",
];

/// command grain: callers yield between API-level steps, the worker runs a whole command
pub const COARSE_SITES: &[&str] = &[
    "C_Idle", "C_Poll", "C_PutCheck", "C_Send", "C_DelMark", "C_PouUpdate", "C_PouWeightOf", "C_Get", "C_ShutFlag",
    "W_Recv", "W_Drain", "S_Tick", "R_Recv",
];

pub fn sites(list: &[&str]) -> Vec<String> { list.iter().map(|site| site.to_string()).collect() }

pub const READ_VARIANTS: &[&str] = &["get", "get_ref", "map_get", "map_get_ref", "multi_get", "iter", "map_iter"];

pub struct Gen {
    pub rng: StdRng,
    next_value: i64,
}

fn op(kind: &str) -> Op { Op { op: kind.to_string(), k: -1, v: -1, w: -1, ttl: -1, ..Default::default() } }

impl Gen {
    pub fn new(seed: u64) -> Gen { Gen { rng: StdRng::seed_from_u64(seed), next_value: 100 } }

    fn value(&mut self) -> i64 { self.next_value += 1; self.next_value }

    fn pick<T: Copy>(&mut self, items: &[T]) -> T { *items.choose(&mut self.rng).unwrap() }

    pub fn cfg(&mut self, pressure: bool) -> Cfg {
        let max_weight = if pressure { self.pick(&[4, 6, 10, 12, 30]) } else { self.pick(&[200, 400, 1000]) };
        Cfg {
            max_weight,
            counters: self.pick(&[1, 2, 3, 10, 64, 100]),
            capacity: 16,
            shards: self.pick(&[2, 2, 4, 8]),
            qsize: self.pick(&[1, 2, 4, 16]),
            pool: self.pick(&[1, 1, 2, 3]),
            buffer: self.pick(&[1, 2, 4]),
            hash: self.pick(&["id", "id", "const"]).to_string(),
            clock0: 1000 + self.rng.gen_range(0..8),
            wf_base: 1,
            wf_mod: self.pick(&[1, 2, 3]),
            wf_ttl: self.pick(&[0, 1, 2]),
            default_weight_fn: false,
        }
    }

    fn ttl(&mut self) -> i64 { self.pick(&[1, 2, 3, 5, 8, 13]) }

    fn weight(&mut self, cfg: &Cfg) -> i64 {
        if self.rng.gen_range(0..100) < 5 { cfg.max_weight + self.rng.gen_range(1..3) } else { self.rng.gen_range(1..=cfg.max_weight.min(9)) }
    }

    pub fn put(&mut self, cfg: &Cfg, key: i64) -> Op {
        let mut o = op("put");
        o.k = key;
        o.v = self.value();
        if self.rng.gen_bool(0.6) { o.w = self.weight(cfg); }
        if self.rng.gen_bool(0.4) { o.ttl = self.ttl(); }
        o
    }

    pub fn pou(&mut self, cfg: &Cfg, key: i64) -> Op {
        let mut o = op("pou");
        o.k = key;
        loop {
            o.v = -1; o.w = -1; o.ttl = -1; o.rm = false;
            if self.rng.gen_bool(0.6) { o.v = self.value(); }
            if self.rng.gen_bool(0.3) { o.w = self.weight(cfg); }
            match self.rng.gen_range(0..4) { 0 => o.ttl = self.ttl(), 1 => o.rm = true, _ => {} }
            if o.v >= 0 || o.w >= 0 || o.ttl >= 0 || o.rm { break; }
        }
        o
    }

    pub fn get(&mut self, key: i64) -> Op {
        let mut o = op("get");
        o.k = key;
        o.var = self.pick(READ_VARIANTS).to_string();
        o
    }

    pub fn mget(&mut self, keys: &[i64]) -> Op {
        let mut o = op("mget");
        let count = self.rng.gen_range(1..=3.min(keys.len()));
        o.ks = (0..count).map(|_| *keys.choose(&mut self.rng).unwrap()).collect();
        o.ks.dedup();
        o.var = self.pick(&["multi_get", "iter", "map_iter"]).to_string();
        o
    }

    /// General mix: every write variant, every read variant, awaits, optional shutdown at the end.
    pub fn mix(&mut self, name: &str, callers: usize, ops_per_caller: usize, pressure: bool, shared_keys: bool,
               await_pct: u32, with_shutdown: bool, fine: bool) -> Scenario {
        let cfg = self.cfg(pressure);
        let key_count = self.rng.gen_range(3..=8) as i64;
        let mut programs = BTreeMap::new();
        for caller in 0..callers {
            let role = format!("c{}", caller);
            let keys: Vec<i64> = if shared_keys { (0..key_count).collect() } else { (0..key_count).map(|key| key + 20 * caller as i64).collect() };
            let mut program: Vec<Op> = Vec::new();
            let base = 1000 * (caller as i64 + 1);
            let mut shutdown_at = if with_shutdown && (caller == 0 || self.rng.gen_bool(0.3)) {
                Some(self.rng.gen_range(ops_per_caller / 2..ops_per_caller))
            } else { None };
            while program.len() < ops_per_caller {
                if let Some(position) = shutdown_at {
                    if program.len() >= position {
                        let mut o = op("shutdown");
                        o.id = base + program.len() as i64 + 1;
                        program.push(o);
                        shutdown_at = None;
                        continue;
                    }
                }
                let key = *keys.choose(&mut self.rng).unwrap();
                let roll = self.rng.gen_range(0..100);
                let mut next = if roll < 28 { self.put(&cfg, key) }
                    else if roll < 50 { self.pou(&cfg, key) }
                    else if roll < 62 { let mut o = op("del"); o.k = key; o }
                    else if roll < 88 { self.get(key) }
                    else if roll < 94 { self.mget(&keys) }
                    else if roll < 97 { op("weight") }
                    else { op("stats") };
                next.id = base + program.len() as i64 + 1;
                let is_write = matches!(next.op.as_str(), "put" | "pou" | "del");
                let id = next.id;
                program.push(next);
                if is_write && self.rng.gen_range(0..100) < await_pct {
                    let mut wait = op("await");
                    wait.r#ref = id;
                    wait.id = base + program.len() as i64 + 1;
                    program.push(wait);
                }
            }
            programs.insert(role, program);
        }
        Scenario {
            name: name.to_string(),
            cfg,
            programs,
            yield_sites: { let _ = fine; sites(SYS_SITES) },
            schedule: Schedule::Random {
                seed: self.rng.gen(),
                stall_sweeper: self.rng.gen_range(0..100) < 15,
                stall_consumer: self.rng.gen_range(0..100) < 20,
                advance_pct: self.pick(&[0, 3, 8, 15]),
                max_advance: self.pick(&[1, 2, 4, 9]),
                sweeper_pct: self.pick(&[5, 20, 60]),
                sticky_pct: self.pick(&[0, 0, 50, 85]),
            },
            freq: Vec::new(),
            max_steps: 0,
        }
    }
}

pub fn generate(profile: &str, seed: u64, count: usize) -> Vec<Scenario> {
    let mut gen = Gen::new(seed);
    let mut scenarios = Vec::new();
    for index in 0..count {
        let name = format!("{}-{}-{}", profile, seed, index);
        let scenario = match profile {
            "mix" => {
                let callers = gen.rng.gen_range(1..=3);
                let ops = gen.rng.gen_range(10..=40);
                let pressure = gen.rng.gen_bool(0.7);
                let shared = gen.rng.gen_bool(0.7);
                let await_pct = gen.pick(&[0, 30, 70, 100]);
                let shutdown = gen.rng.gen_bool(0.15);
                let fine = gen.rng.gen_bool(0.7);
                gen.mix(&name, callers, ops, pressure, shared, await_pct, shutdown, fine)
            }
            _ => panic!("unknown profile {}", profile),
        };
        scenarios.push(scenario);
    }
    scenarios
}
