//! Seeded generators of scenarios (random histories + scheduling parameters), one profile per concern.
use std::collections::BTreeMap;

use rand::rngs::StdRng;
use rand::seq::SliceRandom;
use rand::{Rng, SeedableRng};

use crate::model::*;

/// every schedule point except the ones inside the acknowledgement (those are exercised by the Ack checks)
pub const SYS_SITES: &[&str] = &[
    "C_Idle", "C_Poll", "C_PutCheck", "C_Send", "C_DelMark", "C_PouUpdate", "C_PouWeightOf", "T_UpdRemove", "T_UpdInsert",
    "T_Put", "T_Del", "C_Get", "C_Access", "C_ShutFlag", "C_ShutPolicy", "C_ShutTicker", "C_ShutStore", "C_ShutClearPolicy",
    "C_ShutClearTtl", "W_Recv", "W_Drain", "W_PutCheck", "A_Space", "A_Sample", "K_DelKw", "K_DelUsed", "K_AddKw",
    "K_AddUsed", "W_StorePut", "K_Update", "W_DelStore", "S_Tick", "S_Sweep", "S_Done", "R_Recv", "R_Apply",
];

/// command grain: callers yield between API-level steps, the worker runs a whole command
pub const COARSE_SITES: &[&str] = &[
    "C_Idle", "C_Poll", "C_PutCheck", "C_Send", "C_DelMark", "C_PouUpdate", "C_PouWeightOf", "C_Get", "C_ShutFlag",
    "W_Recv", "W_Drain", "S_Tick", "R_Recv",
];

pub fn sites(list: &[&str]) -> Vec<String> { list.iter().map(|site| site.to_string()).collect() }

pub const READ_VARIANTS: &[&str] = &["get", "get_ref", "map_get", "map_get_ref", "multi_get", "iter", "map_iter"];

pub struct Gen {
    pub rng: StdRng,
    next_value: i64,
}

fn op(kind: &str) -> Op { Op { op: kind.to_string(), k: -1, v: -1, w: -1, ttl: -1, ..Default::default() } }

impl Gen {
    pub fn new(seed: u64) -> Gen { Gen { rng: StdRng::seed_from_u64(seed), next_value: 100 } }

    fn value(&mut self) -> i64 { self.next_value += 1; self.next_value }

    fn pick<T: Copy>(&mut self, items: &[T]) -> T { *items.choose(&mut self.rng).unwrap() }

    pub fn cfg(&mut self, pressure: bool) -> Cfg {
        let max_weight = if pressure { self.pick(&[4, 6, 10, 12, 30]) } else { self.pick(&[200, 400, 1000]) };
        Cfg {
            max_weight,
            counters: self.pick(&[1, 2, 3, 10, 64, 100]),
            capacity: 16,
            shards: self.pick(&[2, 2, 4, 8]),
            qsize: self.pick(&[1, 2, 4, 16]),
            pool: self.pick(&[1, 1, 2, 3]),
            buffer: self.pick(&[1, 2, 4]),
            hash: self.pick(&["id", "id", "const"]).to_string(),
            clock0: 1000 + self.rng.gen_range(0..8),
            wf_base: 1,
            wf_mod: self.pick(&[1, 2, 3]),
            wf_ttl: self.pick(&[0, 1, 2]),
            default_weight_fn: false,
        }
    }

    fn ttl(&mut self) -> i64 { self.pick(&[1, 2, 3, 5, 8, 13]) }

    fn weight(&mut self, cfg: &Cfg) -> i64 {
        if self.rng.gen_range(0..100) < 5 { cfg.max_weight + self.rng.gen_range(1..3) } else { self.rng.gen_range(1..=cfg.max_weight.min(9)) }
    }

    pub fn put(&mut self, cfg: &Cfg, key: i64) -> Op {
        let mut o = op("put");
        o.k = key;
        o.v = self.value();
        if self.rng.gen_bool(0.6) { o.w = self.weight(cfg); }
        if self.rng.gen_bool(0.4) { o.ttl = self.ttl(); }
        o
    }

    pub fn pou(&mut self, cfg: &Cfg, key: i64) -> Op {
        let mut o = op("pou");
        o.k = key;
        loop {
            o.v = -1; o.w = -1; o.ttl = -1; o.rm = false;
            if self.rng.gen_bool(0.6) { o.v = self.value(); }
            if self.rng.gen_bool(0.3) { o.w = self.weight(cfg); }
            match self.rng.gen_range(0..4) { 0 => o.ttl = self.ttl(), 1 => o.rm = true, _ => {} }
            if o.v >= 0 || o.w >= 0 || o.ttl >= 0 || o.rm { break; }
        }
        o
    }

    pub fn get(&mut self, key: i64) -> Op {
        let mut o = op("get");
        o.k = key;
        o.var = self.pick(READ_VARIANTS).to_string();
        o
    }

    pub fn mget(&mut self, keys: &[i64]) -> Op {
        let mut o = op("mget");
        let count = self.rng.gen_range(1..=3.min(keys.len()));
        o.ks = (0..count).map(|_| *keys.choose(&mut self.rng).unwrap()).collect();
        // no key twice: multi_get answers with a map, which cannot tell two lookups of one key apart
        let mut seen = std::collections::HashSet::new();
        o.ks.retain(|key| seen.insert(*key));
        o.var = self.pick(&["multi_get", "iter", "map_iter"]).to_string();
        o
    }

    /// General mix: every write variant, every read variant, awaits, optional shutdown at the end.
    pub fn mix(&mut self, name: &str, callers: usize, ops_per_caller: usize, pressure: bool, shared_keys: bool,
               await_pct: u32, with_shutdown: bool, fine: bool) -> Scenario {
        let cfg = self.cfg(pressure);
        let key_count = self.rng.gen_range(3..=8) as i64;
        let mut programs = BTreeMap::new();
        for caller in 0..callers {
            let role = format!("c{}", caller);
            let keys: Vec<i64> = if shared_keys { (0..key_count).collect() } else { (0..key_count).map(|key| key + 20 * caller as i64).collect() };
            let mut program: Vec<Op> = Vec::new();
            let base = 1000 * (caller as i64 + 1);
            let mut shutdown_at = if with_shutdown && (caller == 0 || self.rng.gen_bool(0.3)) {
                Some(self.rng.gen_range(ops_per_caller / 2..ops_per_caller))
            } else { None };
            while program.len() < ops_per_caller {
                if let Some(position) = shutdown_at {
                    if program.len() >= position {
                        let mut o = op("shutdown");
                        o.id = base + program.len() as i64 + 1;
                        program.push(o);
                        shutdown_at = None;
                        continue;
                    }
                }
                let key = *keys.choose(&mut self.rng).unwrap();
                let roll = self.rng.gen_range(0..100);
                let mut next = if roll < 28 { self.put(&cfg, key) }
                    else if roll < 50 { self.pou(&cfg, key) }
                    else if roll < 62 { let mut o = op("del"); o.k = key; o }
                    else if roll < 88 { self.get(key) }
                    else if roll < 94 { self.mget(&keys) }
                    else if roll < 97 { op("weight") }
                    else { op("stats") };
                next.id = base + program.len() as i64 + 1;
                let is_write = matches!(next.op.as_str(), "put" | "pou" | "del");
                let id = next.id;
                program.push(next);
                if is_write && self.rng.gen_range(0..100) < await_pct {
                    let mut wait = op("await");
                    wait.r#ref = id;
                    wait.id = base + program.len() as i64 + 1;
                    program.push(wait);
                }
            }
            programs.insert(role, program);
        }
        let sched_seed: u64;
        Scenario {
            name: name.to_string(),
            cfg,
            programs,
            yield_sites: { let _ = fine; sites(SYS_SITES) },
            schedule: Schedule::Random {
                seed: { sched_seed = self.rng.gen(); sched_seed },
                stall_sweeper: self.rng.gen_range(0..100) < 15,
                stall_consumer: self.rng.gen_range(0..100) < 20,
                advance_pct: self.pick(&[0, 3, 8, 15]),
                max_advance: self.pick(&[1, 2, 4, 9]),
                sweeper_pct: self.pick(&[5, 20, 60]),
                sticky_pct: self.pick(&[0, 0, 50, 85]),
                worker_pct: self.pick(&[100, 100, 30, 8]),
                // (derived from the schedule's seed so that the generator's random stream stays what it was)
                full_send_pct: if sched_seed % 2 == 0 { 40 } else { 0 },
            },
            freq: Vec::new(),
            max_steps: 0,
        }
    }
}


/// knobs of the generic history generator
#[derive(Clone)]
pub struct Knobs {
    pub callers: (usize, usize),
    pub ops: (usize, usize),
    pub keys: (i64, i64),
    pub shared_keys: bool,
    pub max_weights: Vec<i64>,
    pub qsizes: Vec<usize>,
    pub pools: Vec<usize>,
    pub buffers: Vec<usize>,
    /// percentages (put, pou, del, get, mget, weight, stats); the rest is "get"
    pub mixw: [u32; 7],
    pub ttl_pct: u32,
    pub weight_pct: u32,
    pub pou_ttl_pct: u32,
    pub await_pcts: Vec<u32>,
    pub advance_pcts: Vec<u32>,
    pub max_advances: Vec<i64>,
    pub sweeper_pcts: Vec<u32>,
    pub stall_sweeper_pct: u32,
    pub stall_consumer_pct: u32,
    pub sticky: Vec<u32>,
    pub shutdown_pct: u32,
    pub heavy_pct: u32,
    pub freq_profile: bool,
    pub final_reads: bool,
    pub ttls: Vec<i64>,
    /// percent: after an operation that is not a read, read all of the caller's keys (the observation of C03)
    pub observe_pct: u32,
    pub shards: Vec<usize>,
    /// time-to-live values used by upserts (empty: same as `ttls`); longer ones widen the window between an old and a new deadline
    pub pou_ttls: Vec<i64>,
}

impl Default for Knobs {
    fn default() -> Self {
        Knobs {
            callers: (1, 3), ops: (10, 40), keys: (3, 8), shared_keys: true,
            max_weights: vec![4, 6, 10, 12, 30, 200], qsizes: vec![1, 2, 4, 16], pools: vec![1, 1, 2, 3], buffers: vec![1, 2, 4],
            mixw: [28, 22, 12, 26, 6, 3, 3], ttl_pct: 40, weight_pct: 60, pou_ttl_pct: 50,
            await_pcts: vec![0, 30, 70, 100], advance_pcts: vec![0, 3, 8, 15], max_advances: vec![1, 2, 4, 9],
            sweeper_pcts: vec![5, 20, 60], stall_sweeper_pct: 15, stall_consumer_pct: 20, sticky: vec![0, 0, 50, 85],
            shutdown_pct: 0, heavy_pct: 5, freq_profile: false, final_reads: false, ttls: vec![1, 2, 3, 5, 8, 13], observe_pct: 0, shards: vec![2, 2, 4, 8], pou_ttls: Vec::new(),
        }
    }
}

impl Gen {
    fn range(&mut self, r: (usize, usize)) -> usize { self.rng.gen_range(r.0..=r.1) }

    pub fn history(&mut self, name: &str, kn: &Knobs) -> Scenario {
        let max_weight = self.pick(&kn.max_weights);
        let cfg = Cfg {
            max_weight,
            counters: self.pick(&[1, 2, 3, 10, 64, 100]),
            capacity: 16,
            shards: self.pick(&kn.shards),
            qsize: self.pick(&kn.qsizes),
            pool: self.pick(&kn.pools),
            buffer: self.pick(&kn.buffers),
            hash: self.pick(&["id", "id", "const"]).to_string(),
            clock0: 1000 + self.rng.gen_range(0..8),
            wf_base: 1,
            wf_mod: self.pick(&[1, 2, 3]),
            wf_ttl: self.pick(&[0, 1, 2]),
            default_weight_fn: false,
        };
        let callers = self.range(kn.callers);
        let key_count = self.rng.gen_range(kn.keys.0..=kn.keys.1);
        let await_pct = self.pick(&kn.await_pcts);
        let mut programs = BTreeMap::new();
        let total: u32 = kn.mixw.iter().sum();
        for caller in 0..callers {
            let role = format!("c{}", caller);
            let keys: Vec<i64> = if kn.shared_keys { (0..key_count).collect() } else { (0..key_count).map(|key| key + 20 * caller as i64).collect() };
            let mut program: Vec<Op> = Vec::new();
            let base = 1000 * (caller as i64 + 1);
            let ops = self.range(kn.ops);
            let mut shutdown_at = if self.rng.gen_range(0..100) < kn.shutdown_pct { Some(self.rng.gen_range(ops / 3..ops.max(1))) } else { None };
            while program.len() < ops {
                if let Some(position) = shutdown_at {
                    if program.len() >= position {
                        let mut o = op("shutdown");
                        o.id = base + program.len() as i64 + 1;
                        program.push(o);
                        shutdown_at = None;
                        continue;
                    }
                }
                let key = *keys.choose(&mut self.rng).unwrap();
                let mut roll = self.rng.gen_range(0..total.max(1));
                let mut kind = 3;
                for (index, weight) in kn.mixw.iter().enumerate() {
                    if roll < *weight { kind = index; break; }
                    roll -= *weight;
                }
                let mut next = match kind {
                    0 => {
                        let mut o = op("put");
                        o.k = key; o.v = self.value();
                        if self.rng.gen_range(0..100) < kn.weight_pct {
                            o.w = if self.rng.gen_range(0..100) < kn.heavy_pct { cfg.max_weight + self.rng.gen_range(1..3) } else { self.rng.gen_range(1..=cfg.max_weight.min(9)) };
                        }
                        if self.rng.gen_range(0..100) < kn.ttl_pct { o.ttl = self.pick(&kn.ttls); }
                        o
                    }
                    1 => {
                        let mut o = op("pou");
                        o.k = key;
                        loop {
                            o.v = -1; o.w = -1; o.ttl = -1; o.rm = false;
                            if self.rng.gen_bool(0.6) { o.v = self.value(); }
                            if self.rng.gen_range(0..100) < kn.weight_pct / 2 { o.w = self.rng.gen_range(1..=cfg.max_weight.min(9)); }
                            if self.rng.gen_range(0..100) < kn.pou_ttl_pct {
                                if self.rng.gen_bool(0.65) { o.ttl = if kn.pou_ttls.is_empty() { self.pick(&kn.ttls) } else { self.pick(&kn.pou_ttls) }; } else { o.rm = true; }
                            }
                            if o.v >= 0 || o.w >= 0 || o.ttl >= 0 || o.rm { break; }
                        }
                        o
                    }
                    2 => { let mut o = op("del"); o.k = key; o }
                    3 => self.get(key),
                    4 => self.mget(&keys),
                    5 => op("weight"),
                    _ => op("stats"),
                };
                next.id = base + program.len() as i64 + 1;
                let is_write = matches!(next.op.as_str(), "put" | "pou" | "del");
                let id = next.id;
                program.push(next);
                if is_write && self.rng.gen_range(0..100) < await_pct {
                    let mut wait = op("await");
                    wait.r#ref = id;
                    wait.id = base + program.len() as i64 + 1;
                    program.push(wait);
                }
                if kind != 3 && kind != 4 && self.rng.gen_range(0..100) < kn.observe_pct {
                    let mut o = op("mget");
                    o.ks = keys.clone();
                    o.var = self.pick(&["multi_get", "iter", "map_iter"]).to_string();
                    o.id = base + program.len() as i64 + 1;
                    program.push(o);
                }
            }
            if kn.final_reads {
                // await everything still pending, then read every key and the statistics
                let pending: Vec<i64> = program.iter().filter(|o| matches!(o.op.as_str(), "put" | "pou" | "del")).map(|o| o.id).collect();
                let awaited: Vec<i64> = program.iter().filter(|o| o.op == "await").map(|o| o.r#ref).collect();
                for id in pending {
                    if !awaited.contains(&id) {
                        let mut wait = op("await");
                        wait.r#ref = id;
                        wait.id = base + program.len() as i64 + 1;
                        program.push(wait);
                    }
                }
                for key in &keys {
                    let mut o = self.get(*key);
                    o.id = base + program.len() as i64 + 1;
                    program.push(o);
                }
                for kind in ["weight", "stats"] {
                    let mut o = op(kind);
                    o.id = base + program.len() as i64 + 1;
                    program.push(o);
                }
            }
            programs.insert(role, program);
        }
        let freq = if kn.freq_profile {
            (0..key_count).map(|key| (key, self.pick(&[0usize, 0, 1, 2, 3, 7, 20]))).collect()
        } else { Vec::new() };
        let sched_seed: u64;
        Scenario {
            name: name.to_string(),
            cfg,
            programs,
            yield_sites: sites(SYS_SITES),
            schedule: Schedule::Random {
                seed: { sched_seed = self.rng.gen(); sched_seed },
                stall_sweeper: self.rng.gen_range(0..100) < kn.stall_sweeper_pct,
                stall_consumer: self.rng.gen_range(0..100) < kn.stall_consumer_pct,
                advance_pct: self.pick(&kn.advance_pcts),
                max_advance: self.pick(&kn.max_advances),
                sweeper_pct: self.pick(&kn.sweeper_pcts),
                sticky_pct: self.pick(&kn.sticky),
                worker_pct: self.pick(&[100, 100, 30, 8]),
                // (derived from the schedule's seed so that the generator's random stream stays what it was)
                full_send_pct: if sched_seed % 2 == 0 { 40 } else { 0 },
            },
            freq,
            max_steps: 0,
        }
    }
}

pub fn knobs(profile: &str) -> Knobs {
    let d = Knobs::default();
    match profile {
        // time to live: puts with TTL, upserts adding / changing / removing it, the clock moving in small steps, eager sweeper
        "ttl" => Knobs {
            callers: (1, 2), ops: (20, 50), keys: (2, 5), max_weights: vec![40, 200, 400], mixw: [30, 30, 8, 28, 2, 1, 1],
            ttl_pct: 80, pou_ttl_pct: 85, await_pcts: vec![70, 100, 100], advance_pcts: vec![15, 25, 35], max_advances: vec![1, 1, 2, 3],
            sweeper_pcts: vec![60, 100], stall_sweeper_pct: 10, ttls: vec![1, 2, 3, 4, 6], heavy_pct: 0, observe_pct: 40, shards: vec![2, 2, 2, 4], pou_ttls: vec![2, 4, 5, 6, 8, 10], ..d },
        // weight-changing upserts of keys that are about to expire (C01, C05): the worker's weight update against the sweeper's
        // release of the same key id; meant for the lock grain ("lg-updrace")
        "updrace" => Knobs {
            callers: (1, 2), ops: (30, 60), keys: (1, 2), max_weights: vec![40, 200], mixw: [30, 50, 2, 12, 2, 4, 0],
            ttl_pct: 100, weight_pct: 100, pou_ttl_pct: 0, await_pcts: vec![0, 30, 70], advance_pcts: vec![15, 25, 35], max_advances: vec![1, 1, 2],
            sweeper_pcts: vec![100], stall_sweeper_pct: 0, ttls: vec![1, 1, 2, 3], heavy_pct: 0, shards: vec![2, 2, 4], sticky: vec![0, 0, 50], ..d },
        // deletes racing puts of the same one or two keys from several callers, nothing awaited (C04, C07, C11)
        "delrace" => Knobs {
            callers: (2, 3), ops: (25, 50), keys: (1, 2), max_weights: vec![40, 200], mixw: [45, 4, 35, 12, 2, 1, 1],
            ttl_pct: 10, weight_pct: 50, await_pcts: vec![0, 0, 30], advance_pcts: vec![0, 3], sticky: vec![0, 0, 50],
            stall_sweeper_pct: 50, heavy_pct: 0, observe_pct: 10, ..d },
        // memory pressure: small caches, many puts, frequency profiles
        "pressure" => Knobs {
            callers: (1, 3), ops: (20, 50), keys: (5, 12), max_weights: vec![4, 6, 9, 10, 15], mixw: [50, 12, 6, 26, 3, 3, 0],
            ttl_pct: 15, weight_pct: 85, await_pcts: vec![30, 70, 100], advance_pcts: vec![0, 3], freq_profile: true, heavy_pct: 8, ..d },
        // sequential use of every key by one caller, no memory pressure (C03)
        "seq" => Knobs {
            callers: (1, 3), ops: (25, 55), keys: (2, 3), shared_keys: false, max_weights: vec![400, 1000], mixw: [20, 22, 6, 50, 2, 0, 0],
            ttl_pct: 50, await_pcts: vec![100], advance_pcts: vec![5, 15, 25], max_advances: vec![1, 2, 3], sweeper_pcts: vec![40, 100],
            heavy_pct: 0, ttls: vec![2, 3, 4, 6], observe_pct: 80, shards: vec![2, 2, 2, 4], pou_ttls: vec![4, 6, 7, 8, 10, 12], ..d },
        // unawaited bursts on shared keys through tiny queues (C05, C11, C04)
        "burst" => Knobs {
            callers: (1, 3), ops: (12, 30), keys: (1, 3), qsizes: vec![1, 1, 2, 3], mixw: [42, 14, 24, 18, 2, 0, 0], ttl_pct: 15,
            await_pcts: vec![0, 0, 20], advance_pcts: vec![0, 3], final_reads: true, max_weights: vec![6, 10, 50], observe_pct: 60, ..d },
        // shutdown in the middle of traffic (C13)
        "shutdown" => Knobs {
            callers: (2, 3), ops: (8, 24), keys: (2, 4), qsizes: vec![1, 1, 2, 4], shutdown_pct: 70, await_pcts: vec![0, 30, 70],
            advance_pcts: vec![0, 3], ..d },
        // read-heavy traffic through small buffers (C15, C02)
        "reads" => Knobs {
            callers: (1, 4), ops: (25, 60), keys: (2, 6), pools: vec![1, 1, 2, 3], buffers: vec![1, 1, 2, 3], mixw: [14, 8, 5, 55, 16, 1, 1],
            ttl_pct: 20, stall_consumer_pct: 50, await_pcts: vec![50, 100], max_weights: vec![10, 50, 200], ..d },
        // value-less upserts (remove / change the time to live) racing evictions and sweeps in a small cache (C17, C08, C10)
        "evictrace" => Knobs {
            callers: (2, 3), ops: (20, 45), keys: (3, 6), max_weights: vec![3, 4, 6], mixw: [34, 40, 4, 18, 2, 2, 0],
            ttl_pct: 85, weight_pct: 90, pou_ttl_pct: 100, await_pcts: vec![0, 30, 70], advance_pcts: vec![8, 15, 25], max_advances: vec![1, 2],
            sweeper_pcts: vec![60, 100], ttls: vec![1, 2, 3], heavy_pct: 0, ..d },
        // statistics (C16): quiescent observation at the end, all-hit and all-miss mixes, weight changes
        "stats" => Knobs {
            callers: (1, 2), ops: (15, 40), keys: (2, 6), mixw: [22, 22, 8, 34, 6, 2, 6], final_reads: true, await_pcts: vec![50, 100],
            max_weights: vec![6, 10, 30, 200], ..d },
        _ => d,
    }
}

/// the schedule points in front of every traced lock acquisition ("lock grain")
pub const LOCK_SITES: &[&str] = &["L_AcqR", "L_AcqW"];

pub fn generate(profile: &str, seed: u64, count: usize) -> Vec<Scenario> {
    // "lg-<profile>": the same histories, interleaved at the grain of the lock acquisitions as well
    if let Some(base) = profile.strip_prefix("lg-") {
        let mut scenarios = generate(base, seed ^ 0x1c9, count);
        for scenario in scenarios.iter_mut() {
            scenario.name = format!("lg-{}", scenario.name);
            scenario.yield_sites.extend(sites(LOCK_SITES));
        }
        return scenarios;
    }
    let mut gen = Gen::new(seed);
    let mut scenarios = Vec::new();
    for index in 0..count {
        let name = format!("{}-{}-{}", profile, seed, index);
        let scenario = match profile {
            "mix" => {
                let callers = gen.rng.gen_range(1..=3);
                let ops = gen.rng.gen_range(10..=40);
                let pressure = gen.rng.gen_bool(0.7);
                let shared = gen.rng.gen_bool(0.7);
                let await_pct = gen.pick(&[0, 30, 70, 100]);
                let shutdown = gen.rng.gen_bool(0.15);
                let fine = gen.rng.gen_bool(0.7);
                gen.mix(&name, callers, ops, pressure, shared, await_pct, shutdown, fine)
            }
            "allhit" => {
                // a handful of keys put once, then only reads of them: no miss at all
                let mut kn = knobs("stats");
                kn.mixw = [0, 0, 0, 90, 8, 0, 2];
                kn.final_reads = true;
                kn.callers = (1, 1);
                let mut sc = gen.history(&name, &kn);
                sc.cfg.max_weight = 1000;
                for (_, program) in sc.programs.iter_mut() {
                    let base = program.first().map(|o| o.id - 1).unwrap_or(1000);
                    let mut prefix: Vec<Op> = Vec::new();
                    let keys: Vec<i64> = program.iter().flat_map(|o| if o.op == "get" { vec![o.k] } else { o.ks.clone() }).collect();
                    let mut seen = std::collections::BTreeSet::new();
                    for key in keys { if seen.insert(key) {
                        let mut put = gen.put(&sc.cfg, key); put.ttl = -1; put.w = 1;
                        prefix.push(put);
                    } }
                    let mut all: Vec<Op> = Vec::new();
                    for put in prefix { let mut wait = Op { op: "await".to_string(), k: -1, v: -1, w: -1, ttl: -1, ..Default::default() }; all.push(put); all.push(wait.clone()); let _ = &mut wait; }
                    all.extend(program.drain(..));
                    for (index, o) in all.iter_mut().enumerate() { o.id = base + index as i64 + 1; }
                    for index in 0..all.len() { if all[index].op == "await" && all[index].r#ref == 0 { all[index].r#ref = all[index - 1].id; } }
                    *program = all;
                }
                // only caller c0 of a shared-key scenario may put: drop duplicate puts of other callers (they would be rejected, which is fine)
                sc
            }
            "fill" => {
                // a cache filled with light keys, then heavy puts that need many victims (more than one sample)
                let mut kn = knobs("pressure");
                kn.callers = (1, 1); kn.ops = (0, 0);
                let mut sc = gen.history(&name, &kn);
                sc.cfg.max_weight = gen.pick(&[8, 10, 12, 15, 20, 30]);
                let light = gen.pick(&[1, 1, 2]);
                let mut program: Vec<Op> = Vec::new();
                let count = sc.cfg.max_weight / light;
                // half of the runs with a frequency profile: some resident keys are hot, the incoming heavy keys vary
                sc.freq = if gen.rng.gen_bool(0.6) {
                    let mut freq: Vec<(i64, usize)> = Vec::new();
                    for key in 0..count { freq.push((key, gen.pick(&[0usize, 0, 1, 2, 3, 7]))); }
                    for key in 100..106 { freq.push((key, gen.pick(&[0usize, 1, 4, 9]))); }
                    freq
                } else { Vec::new() };
                sc.cfg.counters = gen.pick(&[64, 100]);
                for key in 0..count {
                    let mut put = op("put"); put.k = key; put.v = gen.value(); put.w = light;
                    program.push(put);
                    if gen.rng.gen_bool(0.5) { let mut wait = op("await"); wait.r#ref = -1; program.push(wait); }
                }
                for round in 0..gen.rng.gen_range(2..6) {
                    if gen.rng.gen_bool(0.4) { let key = gen.rng.gen_range(0..count); program.push(gen.get(key)); }
                    let mut put = op("put"); put.k = 100 + round; put.v = gen.value();
                    put.w = gen.rng.gen_range((5 * light + 1).min(sc.cfg.max_weight)..=sc.cfg.max_weight);
                    if gen.rng.gen_bool(0.2) { put.ttl = 3; }
                    program.push(put);
                    let mut wait = op("await"); wait.r#ref = -1; program.push(wait);
                    program.push(op("weight"));
                }
                for (index, o) in program.iter_mut().enumerate() { o.id = 1000 + index as i64 + 1; }
                for index in 0..program.len() { if program[index].op == "await" && program[index].r#ref == -1 { program[index].r#ref = program[index - 1].id; } }
                sc.programs.clear();
                sc.programs.insert("c0".to_string(), program);
                sc
            }
            "shutrace" => {
                // shutdown() racing a few unawaited writes of other callers (C13): many short runs
                let mut kn = knobs("shutdown");
                kn.callers = (3, 4); kn.ops = (0, 0);
                let mut sc = gen.history(&name, &kn);
                sc.cfg.qsize = gen.pick(&[1, 2, 2, 4]);
                let roles: Vec<String> = sc.programs.keys().cloned().collect();
                for (index, role) in roles.iter().enumerate() {
                    let base = 1000 * (index as i64 + 1);
                    let mut program: Vec<Op> = Vec::new();
                    if index == 0 {
                        if gen.rng.gen_bool(0.5) { program.push(gen.put(&sc.cfg, 0)); }
                        program.push(op("shutdown"));
                        program.push(gen.put(&sc.cfg, 1));
                        program.push(gen.get(0));
                    } else {
                        for _ in 0..gen.rng.gen_range(1..=3) {
                            let key = gen.rng.gen_range(0..3);
                            let next = match gen.rng.gen_range(0..4) { 0 => { let mut o = op("del"); o.k = key; o } 1 => gen.pou(&sc.cfg, key), _ => gen.put(&sc.cfg, key) };
                            program.push(next);
                        }
                        if index == 1 && gen.rng.gen_bool(0.3) { program.push(op("shutdown")); }
                    }
                    for (position, o) in program.iter_mut().enumerate() { o.id = base + position as i64 + 1; }
                    sc.programs.insert(role.clone(), program);
                }
                sc
            }
            "boundary" => {
                // arguments and configurations at and around type / arithmetic boundaries (C17)
                let mut kn = knobs("mix");
                kn.callers = (1, 2); kn.ops = (10, 30); kn.keys = (2, 4);
                kn.final_reads = true;
                let mut sc = gen.history(&name, &kn);
                sc.cfg.max_weight = gen.pick(&[1, 24, 25, 26, 49, 100, 1 << 20]);
                // (total cache weights at and just below i64::MAX, in the two-zone encoding; chosen from the scenario's own seed bits
                //  so that the generator's random stream stays what it was)
                let huge_cache = match &sc.schedule { Schedule::Random { seed, .. } => seed % 4 == 1, _ => false };
                if huge_cache { sc.cfg.max_weight = crate::driver::BIG + 1 + (sc.cfg.clock0 % 3); }
                sc.cfg.counters = gen.pick(&[1, 1, 2, 3, 4]);
                sc.cfg.qsize = gen.pick(&[1, 1, 2]);
                sc.cfg.pool = gen.pick(&[1, 1, 2]);
                sc.cfg.buffer = gen.pick(&[1, 1, 2]);
                sc.cfg.shards = 2;
                sc.cfg.default_weight_fn = gen.rng.gen_bool(0.3);
                let big = crate::driver::BIG;
                let max = sc.cfg.max_weight;
                for (_, program) in sc.programs.iter_mut() {
                    for o in program.iter_mut() {
                        if o.op == "put" || o.op == "pou" {
                            if o.w >= 0 || gen.rng.gen_bool(0.3) {
                                o.w = gen.pick(&[1, 1, 2, 23, 24, 25, max, max, max + 1, (max - 1).max(1), big + 1, big + 2, big + 25]);
                            }
                            if o.ttl >= 0 && !o.rm {
                                match gen.rng.gen_range(0..6) {
                                    0 => { o.ttl = 0; o.ttl_ns = 0; }
                                    1 => { o.ttl = 0; o.ttl_ns = 1; }
                                    2 => { o.ttl = big; }           // Duration::MAX
                                    3 => { o.ttl = 1_000_000; }
                                    _ => {}
                                }
                            }
                        }
                    }
                }
                sc
            }
            "updrace" => {
                // heavy puts, light upserts: a lost race between the worker's weight update and the sweeper's release shows in the total
                let mut sc = gen.history(&name, &knobs("updrace"));
                for (_, program) in sc.programs.iter_mut() {
                    for o in program.iter_mut() {
                        if o.op == "put" { o.w = gen.rng.gen_range(5..=9); }
                        if o.op == "pou" && o.w > 0 { o.w = gen.rng.gen_range(1..=2); }
                    }
                }
                sc
            }
            "hugefill" => {
                // a cache whose weight is near i64::MAX, filled to within a few hundred units of it, then puts a little larger than
                // the room that is left (C01 / C17: the fit test at magnitudes where floating point and 64-bit sums give way)
                let mut kn = knobs("mix");
                kn.callers = (1, 1); kn.ops = (6, 14); kn.keys = (3, 5); kn.mixw = [60, 0, 12, 18, 4, 6, 0]; kn.ttl_pct = 15; kn.await_pcts = vec![100];
                kn.stall_sweeper_pct = 50; kn.shutdown_pct = 0; kn.heavy_pct = 0;
                let mut sc = gen.history(&name, &kn);
                let big = crate::driver::BIG;
                let below_max = *[1000i64, 4000, 100_000, 10_000_000].get(gen.rng.gen_range(0..4)).unwrap();
                let room = gen.rng.gen_range(50..400i64);
                sc.cfg.max_weight = big + 1 + below_max;                       // i64::MAX - below_max
                sc.cfg.default_weight_fn = false;
                for (_, program) in sc.programs.iter_mut() {
                    let mut first = true;
                    for o in program.iter_mut() {
                        if o.op == "put" {
                            if first { o.w = big + 1 + below_max + room; o.k = 0; first = false; }   // cache weight - room
                            else { o.w = room + gen.rng.gen_range(1..300); if o.k == 0 { o.k = 1; } }
                        }
                    }
                }
                sc
            }
            "evictrace" => {
                let mut sc = gen.history(&name, &knobs("evictrace"));
                for (_, program) in sc.programs.iter_mut() {
                    for o in program.iter_mut() {
                        if o.op == "pou" && gen.rng.gen_bool(0.7) { o.v = -1; o.w = -1; if o.ttl < 0 && !o.rm { o.rm = true; } }
                        if o.op == "put" && o.w > 2 { o.w = gen.rng.gen_range(1..=2); }
                    }
                }
                sc
            }
            other => gen.history(&name, &knobs(other)),
        };
        scenarios.push(scenario);
    }
    scenarios
}
