//! Free-running histories on PRIVATE keys (no scheduler, hooks inactive): every key has exactly one writing thread, so the
//! calls on it form a sequential history whatever the other threads do; the other threads only read it (get, get_ref,
//! multi_get), which makes them compete for the same store shards, buffers and queue. The cache is far larger than
//! everything put into it and nothing carries a time to live, so admission always accepts and nothing expires: the
//! sequential meaning of the calls is the one of KeyHist in TraceHist.tla, and TLC checks every recorded call against it.
use std::future::Future;
use std::io::Write;
use std::pin::Pin;
use std::sync::atomic::{AtomicBool, Ordering};
use std::sync::{mpsc, Arc};
use std::task::{Context, Poll, Wake, Waker};
use std::time::{Duration, Instant};

use rand::rngs::StdRng;
use rand::{Rng, SeedableRng};

use tinylfu_cached::cache::cached::CacheD;
use tinylfu_cached::cache::command::command_executor::CommandSendResult;
use tinylfu_cached::cache::config::ConfigBuilder;
use tinylfu_cached::cache::put_or_update::PutOrUpdateRequestBuilder;
use tinylfu_cached::cache::verif;

struct Noop;
impl Wake for Noop { fn wake(self: Arc<Self>) {} }

/// status code of the acknowledgement (verif::status_code), -2: send failed, -3: never completed
fn wait(result: CommandSendResult, deadline: Instant) -> i64 {
    match result {
        Ok(ack) => {
            let waker = Waker::from(Arc::new(Noop));
            let mut context = Context::from_waker(&waker);
            loop {
                let mut handle = ack.handle();
                if let Poll::Ready(status) = Pin::new(&mut handle).poll(&mut context) { return verif::status_code(&status); }
                if Instant::now() > deadline { return -3; }
                std::thread::yield_now();
            }
        }
        Err(_) => -2,
    }
}

pub struct HistOutcome { pub rounds: usize, pub calls: usize, pub stall: Option<String> }

struct Unpark(std::thread::Thread, std::sync::atomic::AtomicUsize);
impl Wake for Unpark {
    fn wake(self: Arc<Self>) { self.1.fetch_add(1, Ordering::SeqCst); self.0.unpark(); }
    fn wake_by_ref(self: &Arc<Self>) { self.1.fetch_add(1, Ordering::SeqCst); self.0.unpark(); }
}

/// Free-running "hand-over" rounds (C12, C18): while the worker is busy with a backlog, the acknowledgement of one more put is
/// polled once by a task that then gives up, and after that awaited by another task that really sleeps (thread park) until
/// its waker is called. The second task registered its waker with the most recent poll before completion, so completion must
/// wake it; a sleeper that only comes back through its own time-out although the acknowledgement is complete was not woken.
pub fn run_handover(seed: u64, rounds: usize, backlog: usize, timeout: Duration, out: &mut dyn Write) -> HistOutcome {
    let mut calls = 0usize;
    let (mut rescues, mut rescued_shut, mut rescued_plain) = (0usize, false, false);
    for round in 0..rounds {
        let mut rng = StdRng::seed_from_u64(seed.wrapping_add(round as u64));
        let cache = Arc::new(CacheD::<u64, u64>::new(
            ConfigBuilder::new(64, 64, 100_000_000).shards(2).command_buffer_size(backlog + 16).access_pool_size(1).access_buffer_size(8).build()));
        let deadline = Instant::now() + timeout;
        let mut pending = Vec::new();
        for index in 0..backlog { pending.push(cache.put_with_weight(index as u64 + 10, 1, 1 + (index % 7) as i64)); }
        let ack = match cache.put_with_weight(1, 1, rng.gen_range(1..5)) { Ok(ack) => ack, Err(_) => continue };
        // the task that gives up: one poll with its own waker
        let first = {
            let ack = ack.clone();
            std::thread::spawn(move || {
                let waker = Waker::from(Arc::new(Noop));
                let mut context = Context::from_waker(&waker);
                let mut handle = ack.handle();
                matches!(Pin::new(&mut handle).poll(&mut context), Poll::Pending)
            }).join().unwrap_or(false)
        };
        // every third round the acknowledgement is completed by a shutdown that drains the queue (status ShuttingDown) instead of
        // by the execution of the command: whoever completes it has to wake the sleeper
        let with_shutdown = round % 3 == 2;
        let asleep = Arc::new(AtomicBool::new(false));
        if with_shutdown {
            let (cache, asleep) = (cache.clone(), asleep.clone());
            // (the shutdown starts once the second task has gone to sleep, or after 20 ms at the latest)
            std::thread::spawn(move || {
                let begin = Instant::now();
                while !asleep.load(Ordering::SeqCst) && begin.elapsed() < Duration::from_millis(20) { std::thread::yield_now(); }
                std::thread::sleep(Duration::from_micros(200));
                cache.shutdown();
            });
        }
        // the task that takes over: sleeps until woken
        let sleeper = Arc::new(Unpark(std::thread::current(), std::sync::atomic::AtomicUsize::new(0)));
        let waker = Waker::from(sleeper.clone());
        let mut context = Context::from_waker(&waker);
        let nap = Duration::from_millis(2500);
        let mut rescued = false;
        let mut saw_pending = false;
        let status = loop {
            let mut handle = ack.handle();
            match Pin::new(&mut handle).poll(&mut context) {
                Poll::Ready(status) => break verif::status_code(&status),
                Poll::Pending => {
                    saw_pending = true;
                    asleep.store(true, Ordering::SeqCst);
                    let woken_before = sleeper.1.load(Ordering::SeqCst);
                    let slept = Instant::now();
                    while sleeper.1.load(Ordering::SeqCst) == woken_before && slept.elapsed() < nap { std::thread::park_timeout(nap.saturating_sub(slept.elapsed())); }
                    if sleeper.1.load(Ordering::SeqCst) == woken_before {
                        // nobody called the waker during the whole nap: was the acknowledgement complete meanwhile?
                        if ack.handle().verif_peek().0 { rescued = true; }
                    }
                    if Instant::now() > deadline { break -3; }
                }
            }
        };
        for result in pending { let _ = wait(result, deadline); }
        calls += 1;
        serde_json::to_writer(&mut *out, &serde_json::json!({"t": "h", "run": round + 1, "w": 0, "n": 1, "k": 1, "op": if with_shutdown { "handover_shut" } else { "handover" }, "v": if first && saw_pending { 1 } else { 0 }, "st": status,
                                                             "got": if rescued { -1 } else { 1 }})).unwrap();
        out.write_all(b"\n").unwrap();
        cache.shutdown();
        if status == -3 {
            return HistOutcome { rounds: round + 1, calls, stall: Some(format!("round {} (seed {}): the acknowledgement never completed", round, seed.wrapping_add(round as u64))) };
        }
        // (a lost wake-up costs a whole nap: stop once one was seen with and one without a shutdown, or after three)
        if rescued { rescues += 1; if with_shutdown { rescued_shut = true; } else { rescued_plain = true; } }
        if (rescued_shut && rescued_plain) || rescues >= 6 { break; }
    }
    HistOutcome { rounds, calls, stall: None }
}

struct Counting(std::sync::atomic::AtomicUsize);
impl Wake for Counting {
    fn wake(self: Arc<Self>) { self.0.fetch_add(1, Ordering::SeqCst); }
    fn wake_by_ref(self: &Arc<Self>) { self.0.fetch_add(1, Ordering::SeqCst); }
}

/// Free-running "contended completion" rounds (C12): several threads poll ONE acknowledgement without pause, all with the same
/// waker, while the worker (busy with a backlog) completes it. If any poll returned Pending, that waker was registered when
/// the completion ran, so it must have been called at least once: whatever the pollers were doing to the waker slot then.
pub fn run_contend(seed: u64, rounds: usize, backlog: usize, pollers: usize, timeout: Duration, out: &mut dyn Write) -> HistOutcome {
    let mut calls = 0usize;
    for round in 0..rounds {
        let mut rng = StdRng::seed_from_u64(seed.wrapping_add(round as u64));
        let cache = Arc::new(CacheD::<u64, u64>::new(
            ConfigBuilder::new(64, 64, 100_000_000).shards(2).command_buffer_size(backlog + 16).access_pool_size(1).access_buffer_size(8).build()));
        let deadline = Instant::now() + timeout;
        let mut pending = Vec::new();
        for index in 0..rng.gen_range(backlog / 2..=backlog) { pending.push(cache.put_with_weight(index as u64 + 10, 1, 1)); }
        let ack = match cache.put_with_weight(1, 1, 1) { Ok(ack) => ack, Err(_) => continue };
        let counting = Arc::new(Counting(std::sync::atomic::AtomicUsize::new(0)));
        let mut joins = Vec::new();
        for _ in 0..pollers {
            let (ack, counting) = (ack.clone(), counting.clone());
            joins.push(std::thread::spawn(move || {
                let waker = Waker::from(counting);
                let mut context = Context::from_waker(&waker);
                let mut pendings = 0i64;
                loop {
                    let mut handle = ack.handle();
                    match Pin::new(&mut handle).poll(&mut context) {
                        Poll::Ready(status) => return (pendings, verif::status_code(&status)),
                        Poll::Pending => { pendings += 1; if Instant::now() > deadline { return (pendings, -3); } }
                    }
                }
            }));
        }
        let results: Vec<(i64, i64)> = joins.into_iter().map(|join| join.join().unwrap_or((0, -3))).collect();
        let pendings: i64 = results.iter().map(|result| result.0).sum();
        let status = results.iter().map(|result| result.1).min().unwrap_or(-3);
        // the completion runs its wake-up right after publishing the flag: give it a moment
        let waited = Instant::now();
        while counting.0.load(Ordering::SeqCst) == 0 && waited.elapsed() < Duration::from_millis(300) { std::thread::yield_now(); }
        for result in pending { let _ = wait(result, deadline); }
        calls += 1;
        serde_json::to_writer(&mut *out, &serde_json::json!({"t": "h", "run": round + 1, "w": 0, "n": 1, "k": 1, "op": "contend", "v": pendings.min(1_000_000), "st": status,
                                                             "got": counting.0.load(Ordering::SeqCst).min(1_000_000) as i64})).unwrap();
        out.write_all(b"\n").unwrap();
        cache.shutdown();
        if status == -3 {
            return HistOutcome { rounds: round + 1, calls, stall: Some(format!("round {} (seed {}): the acknowledgement never completed", round, seed.wrapping_add(round as u64))) };
        }
    }
    HistOutcome { rounds, calls, stall: None }
}

/// Free-running "hot key" rounds: one key fills the cache and is read without pause by several threads (so its estimate is
/// high in every ageing window), while one thread puts keys that were never read and that only fit by evicting it. Every
/// such put must be refused and the hot key must stay (TinyLFU admission with true estimates: C06, C14), whatever the
/// consumer of the access buffers is doing at that moment.
pub fn run_hot(seed: u64, rounds: usize, readers: usize, puts: usize, timeout: Duration, out: &mut dyn Write) -> HistOutcome {
    let mut calls = 0usize;
    const HOT: u64 = 1;
    for round in 0..rounds {
        let mut rng = StdRng::seed_from_u64(seed.wrapping_add(round as u64));
        let cache = Arc::new(CacheD::<u64, u64>::new(
            ConfigBuilder::new(1024, 64, 10)
                .shards(2).command_buffer_size(4)
                .access_pool_size(*[1usize, 2, 4].get(rng.gen_range(0..3)).unwrap()).access_buffer_size(*[4usize, 16, 64].get(round % 3).unwrap())
                .build()));
        let deadline = Instant::now() + timeout;
        let stop = Arc::new(AtomicBool::new(false));
        if wait(cache.put_with_weight(HOT, 7, 10), deadline) != 1 { continue; }
        for _ in 0..64 { let _ = cache.get(&HOT); }
        std::thread::sleep(Duration::from_millis(40));
        let mut joins = Vec::new();
        for _ in 0..readers {
            let (cache, stop) = (cache.clone(), stop.clone());
            joins.push(std::thread::spawn(move || { let mut sink = 0u64; while !stop.load(Ordering::Relaxed) { sink = sink.wrapping_add(cache.get(&HOT).unwrap_or(0)); } sink }));
        }
        std::thread::sleep(Duration::from_millis(10));
        serde_json::to_writer(&mut *out, &serde_json::json!({"t": "reset", "run": round + 1, "w": -1, "n": 0, "k": 0, "op": "", "v": -1, "st": -1, "got": -1})).unwrap();
        out.write_all(b"\n").unwrap();
        let mut lost = false;
        for index in 0..puts {
            let key = 1000 + (round * puts + index) as u64;
            let hash_of = |key: u64| { use std::hash::{Hash, Hasher}; let mut hasher = std::collections::hash_map::DefaultHasher::new(); key.hash(&mut hasher); hasher.finish() };
            let (hot_before, cold_before) = (cache.verif_estimate(hash_of(HOT)), cache.verif_estimate(hash_of(key)));
            let status = wait(cache.put_with_weight(key, key, 10), deadline);
            if status == -3 { lost = true; break; }
            let cold_after = cache.verif_estimate(hash_of(key));
            let hot_present = cache.get(&HOT).is_some();
            calls += 1;
            serde_json::to_writer(&mut *out, &serde_json::json!({"t": "h", "run": round + 1, "w": 0, "n": index + 1, "k": key, "op": "cold_put", "v": key, "st": status,
                                                                 "got": if hot_present { 1 } else { -1 },
                                                                 // estimates read through the cache's own estimate function: of the resident before
                                                                 // the put, of the newcomer before and after it (a newcomer whose sketch positions
                                                                 // all coincide with the resident's shares its estimate: that is over-counting, allowed)
                                                                 "e_hot": hot_before as i64, "e_cold": cold_before as i64, "e_cold2": cold_after as i64})).unwrap();
            out.write_all(b"\n").unwrap();
            if !hot_present { break; }   // (from here on the resident is a cold key: nothing more to learn in this round)
        }
        stop.store(true, Ordering::SeqCst);
        for join in joins { let _ = join.join(); }
        if lost {
            return HistOutcome { rounds: round + 1, calls, stall: Some(format!("round {} (seed {}): an acknowledgement never completed", round, seed.wrapping_add(round as u64))) };
        }
        cache.shutdown();
    }
    HistOutcome { rounds, calls, stall: None }
}

pub fn run(seed: u64, rounds: usize, writers: usize, readers: usize, ops_per_thread: usize, timeout: Duration, out: &mut dyn Write) -> HistOutcome {
    let mut calls = 0usize;
    for round in 0..rounds {
        let mut rng = StdRng::seed_from_u64(seed.wrapping_add(round as u64));
        let shards = *[2usize, 2, 4].get(rng.gen_range(0..3)).unwrap();
        let cache = Arc::new(CacheD::<u64, u64>::new(
            ConfigBuilder::new(64, 64, 1_000_000)
                .shards(shards).command_buffer_size(*[1usize, 2, 8].get(rng.gen_range(0..3)).unwrap())
                .access_pool_size(1).access_buffer_size(*[1usize, 2, 8].get(round % 3).unwrap())
                .key_hash_fn(Box::new(|key: &u64| *key)).build()));
        let deadline = Instant::now() + timeout;
        let stop = Arc::new(AtomicBool::new(false));
        let keys_per_writer = 2u64;
        let all_keys: Vec<u64> = (0..(writers as u64 * keys_per_writer)).collect();
        // readers: contention only
        let mut reader_joins = Vec::new();
        for reader in 0..readers {
            let (cache, stop, keys) = (cache.clone(), stop.clone(), all_keys.clone());
            let reader_seed: u64 = rng.gen();
            reader_joins.push(std::thread::spawn(move || {
                let mut rng = StdRng::seed_from_u64(reader_seed);
                let mut sink = 0u64;
                while !stop.load(Ordering::Relaxed) {
                    let key = keys[rng.gen_range(0..keys.len())];
                    match (reader + rng.gen_range(0..3usize)) % 3 {
                        0 => { if let Some(reference) = cache.get_ref(&key) { sink = sink.wrapping_add(*reference.value().value_ref()); std::hint::spin_loop(); } }
                        1 => { sink = sink.wrapping_add(cache.get(&key).unwrap_or(0)); }
                        _ => { let _ = cache.multi_get(vec![&keys[0], &key]); }
                    }
                }
                sink
            }));
        }
        let (sender, receiver) = mpsc::channel::<(usize, Vec<serde_json::Value>, bool)>();
        for writer in 0..writers {
            let (cache, sender) = (cache.clone(), sender.clone());
            let writer_seed: u64 = rng.gen();
            std::thread::spawn(move || {
                let mut rng = StdRng::seed_from_u64(writer_seed);
                let mut records = Vec::new();
                let mut next_value = (writer as u64 + 1) * 1_000_000;
                let mut ok = true;
                let mut sequence = 0i64;
                let mut push = |records: &mut Vec<serde_json::Value>, key: u64, op: &str, value: i64, status: i64, got: i64| {
                    sequence += 1;
                    records.push(serde_json::json!({"t": "h", "run": round + 1, "w": writer, "n": sequence, "k": key, "op": op, "v": value, "st": status, "got": got}));
                };
                for _ in 0..ops_per_thread {
                    let key = writer as u64 * keys_per_writer + rng.gen_range(0..keys_per_writer);
                    match rng.gen_range(0..10) {
                        0..=2 => {
                            next_value += 1;
                            let status = wait(if rng.gen_bool(0.5) { cache.put(key, next_value) } else { cache.put_with_weight(key, next_value, rng.gen_range(1..50)) }, deadline);
                            push(&mut records, key, "put", next_value as i64, status, -1);
                            if status == -3 { ok = false; break; }
                        }
                        3 | 4 => {
                            next_value += 1;
                            let status = wait(cache.put_or_update(PutOrUpdateRequestBuilder::new(key).value(next_value).build()), deadline);
                            push(&mut records, key, "pou", next_value as i64, status, -1);
                            if status == -3 { ok = false; break; }
                        }
                        5 | 6 => {
                            // the delete call has returned: from here on the key reads as absent (it is this thread's key)
                            let result = cache.delete(key);
                            let got = cache.get(&key).map(|value| value as i64).unwrap_or(-1);
                            push(&mut records, key, "del_then_get", -1, -1, got);
                            let status = wait(result, deadline);
                            push(&mut records, key, "del_ack", -1, status, -1);
                            if status == -3 { ok = false; break; }
                        }
                        _ => {
                            let got = match rng.gen_range(0..3) {
                                0 => cache.get(&key).map(|value| value as i64).unwrap_or(-1),
                                1 => cache.get_ref(&key).map(|reference| *reference.value().value_ref() as i64).unwrap_or(-1),
                                _ => cache.multi_get(vec![&key]).get(&key).copied().flatten().map(|value| value as i64).unwrap_or(-1),
                            };
                            push(&mut records, key, "get", -1, -1, got);
                        }
                    }
                }
                let _ = sender.send((writer, records, ok));
            });
        }
        drop(sender);
        let mut finished = 0;
        let mut lost = false;
        let mut all_records: Vec<(usize, Vec<serde_json::Value>)> = Vec::new();
        while finished < writers {
            match receiver.recv_timeout(deadline.saturating_duration_since(Instant::now()) + Duration::from_millis(500)) {
                Ok((writer, records, ok)) => { finished += 1; if !ok { lost = true; } all_records.push((writer, records)); }
                Err(_) => break,
            }
        }
        stop.store(true, Ordering::SeqCst);
        if finished < writers || lost {
            return HistOutcome { rounds: round + 1, calls, stall: Some(format!(
                "round {} (seed {}): {} of {} writer threads finished within {:?}{}", round, seed.wrapping_add(round as u64), finished, writers, timeout,
                if lost { "; an acknowledgement never completed" } else { "" })) };
        }
        for join in reader_joins { let _ = join.join(); }
        all_records.sort_by_key(|(writer, _)| *writer);
        serde_json::to_writer(&mut *out, &serde_json::json!({"t": "reset", "run": round + 1, "w": -1, "n": 0, "k": 0, "op": "", "v": -1, "st": -1, "got": -1})).unwrap();
        out.write_all(b"\n").unwrap();
        for (_, records) in all_records {
            for record in records {
                calls += 1;
                serde_json::to_writer(&mut *out, &record).unwrap();
                out.write_all(b"\n").unwrap();
            }
        }
        cache.shutdown();
    }
    HistOutcome { rounds, calls, stall: None }
}
